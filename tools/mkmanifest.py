#!/usr/bin/env python3
"""Regenerates /verif/MANIFEST.json from the table below (single source of truth)."""
import json
import os

HERE = os.path.dirname(os.path.dirname(os.path.realpath(__file__)))

NA = {
    'C01': "Pure encode/decode function over a finite value space; no schedule, clock, I/O or fault in the statement - its stated quantifier calls for complete enumeration, which is not simulation.",
    'C02': "Pure decoder over byte strings (16.8 M enumerable inputs); nothing for a scheduler or fault injector to decide.",
    'C03': "Validation of values on a plain in-memory object with no hidden state, clock or I/O; the 'histories' are sequences of independent checked assignments - input-grid testing, not simulation.",
    'C08': "Byte-level conformance of a pure encoder/decoder against a reference codec over inputs and two flags (clip, debug); no schedule, time or fault.",
    'C09': "Pure codec over finite attribute domains; enumeration is the fitting technique.",
    'C12': "merge_tracks is a pure function of its argument lists.",
    'C14': "Pure text/dict/repr codecs and a line-by-line parser; no state survives a call.",
    'C15': "Value semantics of plain objects (copy/freeze/thaw/hash); no concurrency, time or I/O in the statement.",
    'C19': "Whole-file write then whole-file read of a pure codec; the statement has no partial-failure, crash or concurrency clause for the simulator to exercise.",
    'C20': "Deterministic resolution over a finite configuration grid (arguments x environment variables x module shape); enumeration, not seeded search over schedules or faults.",
}

PENDING = {
}

CHECKS = {
    'C04': dict(engine='wire', category='exploration', design='3 / C04',
                technique='deterministic simulation of a faulty MIDI wire (seeded sources, merger, byte-fault process, chunking transport) feeding the real parser; per-delivery invariants',
                text='Seeded search over simulated wires: sources transmitting real encodings, a real-time source, and a fault process (drop, dup, bit flip, boundary replace, garbage burst, source crash, hot-plug, byte-wise merger failure, real-time insertion, pure noise) delivered in scripted chunks to the real Parser / parse_all / a device-port double / ParserQueue. After every delivery: no exception, every yielded message valid by an independent MIDI table, real-time messages one-to-one and in order with the defined real-time bytes consumed, all other message bytes a subsequence (exact greedy match) of the input consumed so far. Sampling, not proof; reach is measured as abstract-tokenizer-state x byte-class x chunk-start cells (160/160 hit in the quick tier).',
                note='Trusted: the independent MIDI 1.0 type/range/encoding table in simkit/model.py; the harness itself. The stream is restricted to integers 0..255 as the statement says.'),
    'C05': dict(engine='wire', category='exploration', design='3 / C05',
                technique='deterministic simulation: scripted transport segmentation and consumer interleavings against a FIFO reference model of the real parser fed at once',
                text='Same simulated wire as C04; the transport decides where the stream is cut (every position, sizes 1/2/3/geometric/whole/mixed), which call delivers each piece (feed(list|bytes|bytearray|generator|tuple), feed_byte, Parser(data)) and which consumer operation (get_message, pending, len, open iterators that survive later feeds, drain) happens in between; also through a polling device-port double and ParserQueue. Oracle: FIFO reference model built from one fresh Parser fed everything at once plus prefix counts from a byte-wise fed one; every observation must match the model.',
                note='Metamorphic oracle: the real parser fed in one call is the reference (that is the property). Streams on which that reference itself raises are skipped (totality is C04).'),
    'C06': dict(engine='wire', category='exploration', design='3 / C06',
                technique='deterministic simulation: damaged prefix (crashed source, noise, hot-plug, open sysex, faulted wire) then healthy sender, real-time source inserting inside sysex; random chunking',
                text='Each run parses P and P+enc(M1..Mn) with fresh real parsers under independent random chunking and requires parse(P+enc(M..)) == parse(P)+[M..], with defined real-time bytes inserted at chosen positions strictly inside sysex encodings delivered ahead of the unchanged sysex. P comes from 7 damage classes incl. the faulted world wire of C04; M covers all 18 types (prefix-class x type and prefix-end-state x type tables fully hit).',
                note='Only defined real-time bytes are inserted into sysex (the statement speaks of real-time messages). Message.bytes() of the tree under test is the transmitter.'),
    'C10': dict(engine='ports_conc', category='exploration', design='3 / C10',
                technique='deterministic thread simulation: real threads under a seeded baton-passing scheduler (random walk, PCT, round-robin) with settrace line-level pre-emption, simulated RLock/Queue/sleep; history oracle (exactly-once, per-sender FIFO, real-time order, copy, wire integrity, liveness)',
                text='Small programs of 1-3 sender and 1-3 receiver threads (send / receive / poll / iter_pending / iteration) run on the real port classes - a lock-protected custom device port (both _receive styles, byte-wise _send onto a wire double), EchoPort, the IOPort wrapper over two device doubles, MultiPort (with and without yield_ports, receivers also reading sub-ports directly) and a ParserQueue-backed rtmidi-shaped port - under a scheduler that decides every interleaving at statement granularity in mido/ports.py, parser.py, tokenizer.py and _parser_queue.py. After each run the recorded history is checked: no call raised, no deadlock, the wire image is a concatenation of whole encodings, every sent message received exactly once (x fan-out) and intact, per sender in order and in real-time order across receivers (unique values, so the FIFO linearizability condition is exact and cheap), nothing received before sent, received object is an unmodified copy although the sender mutates its object afterwards, and no receiver stays blocked while a message is deliverable on its port. Every violation is replayed from its recorded decision list in a fresh process before it is reported.',
                note='Pre-emption granularity is one source line of the files under test; deque.append/popleft assumed atomic (CPython). threading.RLock, queue.Queue, time.sleep and random.shuffle are simulator stubs; C-library backends are not run.'),
    'C11': dict(engine='lifecycle', category='exploration', design='3 / C11',
                technique='single-threaded discrete-event simulation: caller operation histories against a device on a virtual clock with injected hang-ups, partial messages and write errors; per-operation reference model (FIFO of taken-in messages, release count, reset batches, deadlines)',
                text='Generated histories (send, receive, receive(block=False), poll, iter_pending, for-loops with optional close() in the body, close, with-blocks whose body may raise, reset, panic, del, clock advance) on each port type - custom device ports (input/output/IO; old-style, new-style and genuinely blocking _receive), EchoPort, IOPort over two device doubles, MultiPort over 1-3 device ports. The device lives on the simulated clock: messages arrive at planned times; it hangs up (closes the port from inside _receive) at every position relative to the arrivals, optionally after a partial message; _send raises OSError at planned call indices, also during the autoreset of close(). Checked per operation: device released exactly once in total; the 32 reset messages exactly once and before the release; send after close raises ValueError and never reaches the device; receive/poll/iteration hand out exactly the taken-in messages in order, then None / raise / end of iteration without an exception; a non-blocking call never advances the clock or sleeps; a blocking receive returns within 3 poll intervals of a message becoming deliverable and a call still inside 50 intervals after the last scheduled event is reported as never returning; with closes on both exits and does not swallow the exception.',
                note='"Taken in" is defined observably (bytes the device double handed to the port). Single caller thread by design: the documentation says opening and closing ports is not thread safe. Socket ports are exercised by the netsim engine (C18), C-library backends are not run.'),
    'C18': dict(engine='netsim', category='fault_enumeration', design='3 / C18',
                technique='deterministic network simulation: in-process TCP-like byte pipes under a virtual clock with complete per-workload sweep of the disconnect offset (FIN/RST at every byte), scripted segmentation and delays, raw and real peers',
                text='mido.sockets runs unmodified on a simulated network (socket, makefile, select and time are simulator stubs; order-preserving byte pipes with scheduled deliveries). Scenario 1: for each sampled message sequence (all types, real-time bytes inside sysex) the peer is cut at EVERY byte offset 0..L - FIN, or RST in a separately judged configuration - with the bytes before the cut segmented and delayed; the port is consumed by a for-loop, receive(), a poll loop or an iter_pending loop and must yield exactly the messages whose last byte arrived, in order, then end without an exception and report closed, never blocking past the deadline. Scenario 2: connect() <-> PortServer.accept(), traffic both ways, one side calls close(): the peer must reach end-of-stream, receive everything sent before, and report closed. Scenario 3: a PortServer with 1-3 raw clients connecting (also with data in flight before the accept), sending in segments and disconnecting (also mid-message) while the server polls, iterates and blocks: every completely arrived message exactly once, per-client order, no non-blocking call waits or hangs, blocking receive returns within a few poll intervals of an arrival. Every endpoint address is also checked for parse/format inversion. The cut sweep is complete per sampled workload; workloads are sampled.',
                note='The network stub preserves order and loses nothing (what TCP gives an application); its close semantics (_io_refs rule, fileno, EPIPE) were pinned to a real socketpair. After RST only a prefix of the completely arrived messages is required.'),
    'C13': dict(engine='playback', category='exploration', design='3 / C13',
                technique='deterministic simulation of playback on a virtual clock: generated files x consumer delay schedules x clock faults (oversleep, coarse clock, forward/backward jumps); oracle = independent stable merge and exact rational tempo-map integral',
                text='Each run builds a file (type 0/1, type 2 for the refusal clause; ticks_per_beat 1..32767; 1-4 tracks; set_tempo at any position incl. tempo 0, 1, 16777215 and at ties with other tracks; deltas up to 268435455), then (a) iterates it and reads length: messages must equal the independent stable merge, cumulative times the exact tempo-map integral (Fractions), length the last cumulative time, type 2 must refuse; (b) plays it with play(now=simulated clock) while time.sleep is the simulated clock, the consumer spending a planned virtual time on each message (none / constant / bursts longer than the gap / ending exactly at the next scheduled time / abandoning the generator) under clock faults. Checked at every yield: same messages as iteration (metas only on request), never before the scheduled time on the supplied clock, every sleep request positive and equal to scheduled time minus clock reading, and - with an exact clock - yield time == max(request time, start + scheduled time), i.e. no accumulated drift. tick2second/second2tick inversion is monitored on the triples that occur.',
                note="Float results are compared to the exact rational model with relative tolerance 1e-9; under a coarse supplied clock 'never early' allows one clock quantum. play()'s default now=time.time binding is not exercised (the documented now= parameter is)."),
    'C17': dict(engine='charset', category='fault_enumeration', design='3 / C17',
                technique='deterministic storage simulation with complete per-case enumeration of the failure points of load and save (EOF at every byte, OSError at every read/write call incl. torn writes, semantic failures) followed by a process-wide probe; chained call histories',
                text='For each sampled (content, charset out of 10, direction, seam file=/filename=) the fault-free path is checked - texts survive save+load with that charset and the payload bytes found by an independent SMF walker equal text.encode(charset) - and then EVERY failure point of the call is visited on simulated storage: truncation after each byte of the image, OSError at each read call, OSError with and without a torn partial write at each write call, and semantic failures (invalid data byte, undecodable text, bad key signature, bad header, missing track; float or negative time, real-time message, unencodable text, type 0 with two tracks). After every call, failed or not, a probe encodes and decodes discriminating meta texts elsewhere in the process and requires latin1 behaviour. Chained histories of 2-6 calls with mixed charsets and faults, probed after each call or only at the end, cover leaks that only show later. The failure-point sweep is complete per sampled case; cases are sampled.',
                note='Texts are restricted to strings the Python codec itself round-trips. Which exception a failed call raises is recorded but not judged (the statement says succeeded or raised).'),
    'C07': dict(engine='filestore', category='exploration', design='3 / C07',
                technique='deterministic storage simulation: store-vs-model runs on simulated storage (file= and filename= seams) plus a complete per-image sweep of single-byte at-rest faults (truncation at every offset, every byte overwritten with 6 boundary values) checked as a load-save-load fixed point',
                text='Three configurations reported separately. roundtrip (fault-free): generated files (types 0/1/2, 0-4 tracks, channel messages with runs of equal status, system common, sysex payloads 0..16384, every known meta type with boundary values, unknown metas, end_of_track missing/repeated/in the middle, deltas at every variable-length-quantity size boundary) are saved to and loaded from simulated storage and compared with an independent normalisation of the model (one trailing end_of_track carrying the trailing delta). unstorable: each real-time type, negative and float times, type 0 with 0 or 2 tracks must make save raise ValueError, and the system-common types must not be refused. stored_faults: for each sampled small image EVERY single-byte at-rest fault is visited plus multi-byte damage; if the damaged image still loads, saving it must either succeed and re-load to the normalised first load, or raise ValueError only for content the statement lists as unstorable.',
                note='Exploration with a per-image complete stored-byte fault sweep. Text metas use latin1 here (charsets are C17); smpte_offset hours stay within 0..23 and sequencer_specific data is a tuple (representation details belonging to C09). Images that do not load are not judged; byte-level conformance (C08) is not judged - a reader/writer-symmetric deviation is invisible to a round trip.'),
    'C16': dict(engine='history', category='exploration', design='3 / C16',
                technique='deterministic simulation of edit/observe histories against hidden state: every observation repeated on a fresh object built from an independent plain-list model; never-observed twin; observations include play() on a virtual clock (complete/abandoned) and save() to simulated storage with injected write errors',
                text='One MidiFile (empty, built from tracks, or loaded from simulated storage) receives generated histories of 2-16 operations mixing 18 kinds of documented edits (add_track, append/insert/pop/del/assign/replace on the tracks list, append/insert/extend/pop/del/sort/assign on a track, assignment of time/note/tempo on messages, track.name, type, ticks_per_beat) with observations: iteration, length, merged_track, play() on a virtual clock run to completion or abandoned part-way, save() to simulated storage, save() with an injected write error or with content that makes it raise. After every observation the same observation on a FRESH MidiFile built from an independent plain-list content model must give the identical value, bytes or exception type, the observation must not have changed the tracks, and the file\'s tracks must equal the model; a twin that received only the edits and was never observed is compared on all observation kinds at the end.',
                note='Results are compared exactly (same code on equal contents). The plain-list model re-implements the documented list semantics of the edits, so an edit that silently does something else is reported as contents-diverged.'),
}


def main():
    checks = []
    for pid in sorted(CHECKS):
        c = CHECKS[pid]
        checks.append({
            'property_id': pid,
            'quick_cmd': f'timeout 1500 ./check {pid} --tier quick',
            'thorough_cmd': f'timeout 14000 ./check {pid} --tier thorough',
            'evidence_file': f'evidence/{pid}.json',
            'replay_cmd_template': f'./check {pid} --replay {{path}}',
            'engine': c['engine'],
            'level_claimed': {'category': c['category'], 'text': c['text'], 'design_ref': 'DESIGN.md section ' + c['design']},
            'level_note': c['note'],
            'technique': c['technique'],
        })
    na = [{'property_id': k, 'reason': v} for k, v in sorted(NA.items())]
    for k, eng in sorted(PENDING.items()):
        if k not in CHECKS:
            na.append({'property_id': k, 'reason': f'claimed in DESIGN.md; check under construction (engine {eng}) - will move to checks when committed'})
    engines = {}
    for pid, c in CHECKS.items():
        engines.setdefault(c['engine'], []).append(pid)
    man = {
        'version': 1,
        'setup_cmd': "/venv/bin/python -c \"import sys; sys.path.insert(0, '/repo'); import mido; print('mido from', mido.__file__)\"",
        'hooks': {
            'guard': 'MIDO_VERIF',
            'enable': "no hooks are needed: every seam is a module global, a documented parameter or a public setter (DESIGN.md 2.11); checks import /repo's working tree directly (sys.path[0]=/repo, no byte-code cache)",
            'baseline_off_cmd': 'cd /repo && /venv/bin/python -m pytest -ra -q -p no:cacheprovider --timeout=900 --continue-on-collection-errors',
            'source_commits': [],
            'add_only': True,
        },
        'engines': [{'name': n, 'path': f'engines/{n}.py', 'serves_properties': sorted(p),
                     'kind_free_text': 'deterministic simulation with fault injection (seeded plans, replay files, structure-aware minimisation)'}
                    for n, p in sorted(engines.items())],
        'checks': checks,
        'not_applicable': sorted(na, key=lambda d: d['property_id']),
        'notes': 'Technique family: deterministic simulation with fault injection. ./check <ID> --tier quick|thorough; exit 0 held / 1 VIOLATION / 2 harness error. See DESIGN.md.',
    }
    with open(os.path.join(HERE, 'MANIFEST.json'), 'w') as f:
        json.dump(man, f, indent=1)
        f.write('\n')


if __name__ == '__main__':
    main()
