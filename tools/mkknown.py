#!/usr/bin/env python3
"""Regenerate KNOWN_FINDINGS.txt (plain lines) from known_findings.json."""
import json, os
here = os.path.dirname(os.path.dirname(os.path.realpath(__file__)))
d = json.load(open(os.path.join(here, 'known_findings.json')))
lines = []
for f in d['findings']:
    if f['status'] == 'fixed':
        lines.append(f"fixed: property={f['property']} {f['commit']} {f['what']} [signature {f['signature']}; witness {f.get('witness')}]")
    else:
        lines.append(f"known: property={f['property']} {f['what']} [signature {f['signature']}; witness {f.get('witness')}]")
open(os.path.join(here, 'KNOWN_FINDINGS.txt'), 'w').write('\n'.join(lines) + '\n')
print('\n'.join(lines))
