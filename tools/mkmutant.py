#!/usr/bin/env python3
"""mkmutant.py PROP NAME FILE OLD NEW [FILE OLD NEW ...] - write /verif/mutants/PROP-NAME.patch

A mutant is a small source change to /repo (never applied there) that breaks PROP while the
existing test-suite still passes. OLD must occur exactly once in FILE (path relative to /repo).
"""
import difflib
import os
import sys

prop, name = sys.argv[1:3]
rest = sys.argv[3:]
out = []
for i in range(0, len(rest), 3):
    rel, old, new = rest[i:i + 3]
    src = open(os.path.join('/repo', rel)).read()
    old = old.encode().decode('unicode_escape')
    new = new.encode().decode('unicode_escape')
    if src.count(old) != 1:
        sys.exit(f'{rel}: OLD occurs {src.count(old)} times')
    dst = src.replace(old, new)
    out.extend(difflib.unified_diff(src.splitlines(True), dst.splitlines(True), 'a/' + rel, 'b/' + rel))
path = f'/verif/mutants/{prop}-{name}.patch'
open(path, 'w').write(''.join(out))
print(path)
