#!/usr/bin/env python3
"""ingest_seeded.py PROP N [--needs TEXT] - confirm a sub-agent's change myself and keep it as /verif/seeded/PROP-N/.

Confirms in a fresh scratch worktree of /repo (outside /repo and /verif): patch applies, existing test-suite passes
with it, demo fails with it and passes without it. The worktree is removed afterwards.
"""
import json, os, shutil, subprocess, sys, time

prop, n = sys.argv[1], sys.argv[2]
# optional: source directory and the number to store it under (second-round changes)
src = sys.argv[3] if len(sys.argv) > 3 else f'/tmp/seeded-out/{prop}/{n}'
store_n = sys.argv[4] if len(sys.argv) > 4 else n
wt = f'/tmp/sv-{prop}-{n}'
PY = '/venv/bin/python'


def sh(cmd, **kw):
    return subprocess.run(cmd, shell=True, capture_output=True, text=True, **kw)


ran = []
sh(f'git -C /repo worktree remove --force {wt}')
r = sh(f'git -C /repo worktree add -q --detach {wt} HEAD')
assert r.returncode == 0, r.stderr
try:
    head = sh('git -C /repo rev-parse --short HEAD').stdout.strip()
    env = dict(os.environ, PYTHONPATH=wt, PYTHONDONTWRITEBYTECODE='1')
    r0 = subprocess.run([PY, f'{src}/demo.py'], env=env, capture_output=True, text=True, timeout=300, cwd=wt)
    ran.append(f'demo on clean {head}: exit {r0.returncode}')
    r = sh(f'git -C {wt} apply {src}/patch.diff')
    ran.append(f'git apply: exit {r.returncode} {r.stderr.strip()[:200]}')
    ok_apply = r.returncode == 0
    t = subprocess.run([PY, '-m', 'pytest', '-q', '-p', 'no:cacheprovider', '--deselect',
                        'tests/midifiles/test_tracks.py::test_merge_large_midifile'], env=env, cwd=wt,
                       capture_output=True, text=True, timeout=900)
    tail = (t.stdout.strip().splitlines() or [''])[-1]
    ran.append(f'existing tests with change: exit {t.returncode} ({tail})')
    r1 = subprocess.run([PY, f'{src}/demo.py'], env=env, capture_output=True, text=True, timeout=300, cwd=wt)
    ran.append(f'demo with change: exit {r1.returncode}: {(r1.stdout + r1.stderr).strip().splitlines()[-1][:300] if (r1.stdout + r1.stderr).strip() else ""}')
    good = ok_apply and t.returncode == 0 and r0.returncode == 0 and r1.returncode != 0
    print('\n'.join(ran))
    print('CONFIRMED' if good else 'REJECTED')
    if good:
        dst = f'/verif/seeded/{prop}-{store_n}'
        os.makedirs(dst, exist_ok=True)
        for f in ('patch.diff', 'demo.py', 'notes.md'):
            if os.path.exists(f'{src}/{f}'):
                shutil.copy(f'{src}/{f}', dst)
        needs = ''
        if os.path.exists(f'{src}/notes.md'):
            needs = open(f'{src}/notes.md').read()[:1500]
        json.dump({'property': prop, 'id': f'{prop}-{store_n}', 'base_commit': head,
                   'source': 'fresh sub-agent given only the property text and its own scratch worktree',
                   'needs_to_manifest': needs, 'confirmed': ran,
                   'confirmed_at': time.strftime('%Y-%m-%dT%H:%M:%SZ', time.gmtime())},
                  open(f'{dst}/meta.json', 'w'), indent=1)
finally:
    sh(f'git -C /repo worktree remove --force {wt}')
    sh('git -C /repo worktree prune')
