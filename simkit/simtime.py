"""A process-wide seam for wall-clock time (DESIGN 2.3, extended).

`install()` replaces time.time / time.monotonic / time.perf_counter (and their _ns variants) and
time.sleep by wrappers *before the tree under test is imported*, so that even a
`from time import monotonic` inside it binds to the wrapper. While no simulation is active the
wrappers delegate to the real functions (the harness measures its own wall time with them);
while one is active they read the simulation's virtual clock, and sleep advances it. Code under
test that starts to depend on real time (a "stale after 2 s" rule, say) thereby depends on a
clock the simulator owns and can move between two deliveries.

Standard-library modules imported earlier (threading, queue, concurrent.futures) keep their own
bindings to the real functions, so the harness's own locks and pools are unaffected.
"""
import time as _time

_real = {name: getattr(_time, name) for name in
         ('time', 'monotonic', 'perf_counter', 'sleep', 'time_ns', 'monotonic_ns', 'perf_counter_ns')}
_state = {'now': None, 'sleep': None, 'installed': False, 'reads': 0}


def real_time():
    return _real['time']()


def install():
    if _state['installed']:
        return
    _state['installed'] = True

    def _clock(name, scale=1):
        real = _real[name]

        def fn():
            now = _state['now']
            if now is None:
                return real()
            _state['reads'] += 1
            v = now()
            return int(v * scale) if scale != 1 else v
        fn.__name__ = name
        return fn

    def sleep(seconds):
        sl = _state['sleep']
        if sl is None:
            return _real['sleep'](seconds)
        return sl(seconds)

    _time.time = _clock('time')
    _time.monotonic = _clock('monotonic')
    _time.perf_counter = _clock('perf_counter')
    _time.time_ns = _clock('time_ns', 10 ** 9)
    _time.monotonic_ns = _clock('monotonic_ns', 10 ** 9)
    _time.perf_counter_ns = _clock('perf_counter_ns', 10 ** 9)
    _time.sleep = sleep


def activate(now_fn, sleep_fn=None):
    _state['now'] = now_fn
    _state['sleep'] = sleep_fn
    _state['reads'] = 0


def deactivate():
    _state['now'] = None
    _state['sleep'] = None


def reads():
    return _state['reads']


class VClock:
    """A minimal virtual clock for engines that have no clock of their own."""
    def __init__(self, start=1000.0):
        self.now = start

    def read(self):
        return self.now

    def sleep(self, d):
        if d > 0:
            self.now += d
