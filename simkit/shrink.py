"""Structure-aware minimiser (DESIGN 2.2).

An engine supplies `shrink(prop, plan)`: a generator of candidate plans, most aggressive
first. A candidate is kept iff executing it yields the same violation signature. Oracles are
always computed from the plan being executed, so every candidate is a meaningful test.
"""
import copy


def list_cuts(n):
    """Index ranges (start, stop) to try deleting from a list of length n: halves, quarters ... singles."""
    size = n
    seen = set()
    while size >= 1:
        start = 0
        while start < n:
            cut = (start, min(n, start + size))
            if cut not in seen:
                seen.add(cut)
                yield cut
            start += size
        if size == 1:
            break
        size = max(1, size // 2)


def without(lst, cut):
    return lst[:cut[0]] + lst[cut[1]:]


def shrink_list_at(plan, path, min_len=0):
    """Yield copies of plan with chunks of the list at `path` removed."""
    lst = plan
    for k in path:
        lst = lst[k]
    n = len(lst)
    for cut in list_cuts(n):
        if n - (cut[1] - cut[0]) < min_len:
            continue
        cand = copy.deepcopy(plan)
        parent = cand
        for k in path[:-1]:
            parent = parent[k]
        parent[path[-1]] = without(lst, cut)
        yield cand


def replace_at(plan, path, value):
    cand = copy.deepcopy(plan)
    parent = cand
    for k in path[:-1]:
        parent = parent[k]
    parent[path[-1]] = value
    return cand


def minimise(run_fn, shrink_fn, plan, sig, budget, same=None, wall_limit=None):
    """Greedy minimisation. run_fn(plan) -> (sig_or_None, final_plan); final_plan lets threaded
    engines return the plan with the decisions actually taken.

    Returns (minimal_plan, executions_used)."""
    if same is None:
        same = lambda a, b: a == b  # noqa: E731
    import time
    t0 = time.time()
    cur = plan
    used = 0
    improved = True
    while improved and used < budget:
        improved = False
        for cand in shrink_fn(cur):
            if used >= budget or (wall_limit is not None and time.time() - t0 > wall_limit):
                improved = False
                break
            used += 1
            got, final = run_fn(cand)
            if got is not None and same(got, sig):
                cur = final if final is not None else cand
                improved = True
                break
    return cur, used
