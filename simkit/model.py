"""Independent reference knowledge about MIDI 1.0 messages (DESIGN 2, 'simkit/model.py').

Nothing here imports mido's tables: the type list, ranges and byte layouts are written
out from the MIDI 1.0 specification so that the oracles do not inherit a fault from the
code under test.
"""

# type -> (status, attribute names in wire order, length incl. status; None for sysex)
TYPES = {
    'note_off': (0x80, ('channel', 'note', 'velocity'), 3),
    'note_on': (0x90, ('channel', 'note', 'velocity'), 3),
    'polytouch': (0xA0, ('channel', 'note', 'value'), 3),
    'control_change': (0xB0, ('channel', 'control', 'value'), 3),
    'program_change': (0xC0, ('channel', 'program'), 2),
    'aftertouch': (0xD0, ('channel', 'value'), 2),
    'pitchwheel': (0xE0, ('channel', 'pitch'), 3),
    'sysex': (0xF0, ('data',), None),
    'quarter_frame': (0xF1, ('frame_type', 'frame_value'), 2),
    'songpos': (0xF2, ('pos',), 3),
    'song_select': (0xF3, ('song',), 2),
    'tune_request': (0xF6, (), 1),
    'clock': (0xF8, (), 1),
    'start': (0xFA, (), 1),
    'continue': (0xFB, (), 1),
    'stop': (0xFC, (), 1),
    'active_sensing': (0xFE, (), 1),
    'reset': (0xFF, (), 1),
}
ALL_TYPES = tuple(TYPES)
CHANNEL_TYPES = tuple(t for t, (s, _, _) in TYPES.items() if s < 0xF0)
RT_TYPES = ('clock', 'start', 'continue', 'stop', 'active_sensing', 'reset')
COMMON_TYPES = ('quarter_frame', 'songpos', 'song_select', 'tune_request')
NON_RT_TYPES = tuple(t for t in ALL_TYPES if t not in RT_TYPES)
RT_DEFINED = (0xF8, 0xFA, 0xFB, 0xFC, 0xFE, 0xFF)
RT_UNDEFINED = (0xF9, 0xFD)
RT_BY_STATUS = {0xF8: 'clock', 0xFA: 'start', 0xFB: 'continue', 0xFC: 'stop',
                0xFE: 'active_sensing', 0xFF: 'reset'}
BOUNDARY_BYTES = (0x00, 0x7F, 0x80, 0x8F, 0x90, 0xBF, 0xC0, 0xDF, 0xE0, 0xEF, 0xF0, 0xF1,
                  0xF2, 0xF3, 0xF4, 0xF5, 0xF6, 0xF7, 0xF8, 0xF9, 0xFA, 0xFD, 0xFE, 0xFF)

RANGES = {
    'channel': (0, 15), 'note': (0, 127), 'velocity': (0, 127), 'value': (0, 127),
    'control': (0, 127), 'program': (0, 127), 'pitch': (-8192, 8191),
    'frame_type': (0, 7), 'frame_value': (0, 15), 'pos': (0, 16383), 'song': (0, 127),
}


def ref_bytes(d):
    """Reference encoding of a message given as a dict {'type':..., attrs...}."""
    t = d['type']
    status, names, _ = TYPES[t]
    if t == 'sysex':
        return [0xF0] + list(d.get('data', ())) + [0xF7]
    if t == 'pitchwheel':
        v = d['pitch'] + 8192
        return [status | d['channel'], v & 0x7F, (v >> 7) & 0x7F]
    if t == 'songpos':
        return [status, d['pos'] & 0x7F, (d['pos'] >> 7) & 0x7F]
    if t == 'quarter_frame':
        return [status, (d['frame_type'] << 4) | d['frame_value']]
    out = [status | d['channel']] if status < 0xF0 else [status]
    for n in names:
        if n != 'channel':
            out.append(d[n])
    return out


def msg_to_dict(m):
    """Plain dict of a mido message (sysex data as list), without 'time'."""
    d = {'type': m.type}
    _, names, _ = TYPES[m.type]
    for n in names:
        v = getattr(m, n)
        d[n] = list(v) if n == 'data' else v
    return d


def invalid_reason(m):
    """None if m is a valid mido Message by the documented ranges, else a reason string."""
    t = getattr(m, 'type', None)
    if t not in TYPES:
        return f'unknown type {t!r}'
    _, names, _ = TYPES[t]
    have = set(vars(m))
    want = set(names) | {'type', 'time'}
    if have != want:
        return f'attribute set {sorted(have)} != {sorted(want)}'
    for n in names:
        v = getattr(m, n)
        if n == 'data':
            try:
                items = list(v)
            except TypeError:
                return 'data not iterable'
            for b in items:
                if isinstance(b, bool) or not isinstance(b, int) or not 0 <= b <= 127:
                    return f'sysex data byte {b!r}'
        else:
            lo, hi = RANGES[n]
            if isinstance(v, bool) or not isinstance(v, int) or not lo <= v <= hi:
                return f'{n}={v!r} outside {lo}..{hi}'
    return None


def _edge(rng, lo, hi):
    r = rng.random()
    if r < 0.2:
        return lo
    if r < 0.4:
        return hi
    if r < 0.5:
        return (lo + hi) // 2
    return rng.randint(lo, hi)


def gen_msg(rng, types=ALL_TYPES, sysex_max=12):
    """A random valid message dict, biased to range edges."""
    t = types[rng.randrange(len(types))]
    d = {'type': t}
    _, names, _ = TYPES[t]
    for n in names:
        if n == 'data':
            r = rng.random()
            if r < 0.15:
                ln = 0
            elif r < 0.3:
                ln = 1
            elif r < 0.97:
                ln = rng.randint(0, sysex_max)
            else:
                ln = rng.randint(sysex_max, sysex_max * 8)
            d['data'] = [_edge(rng, 0, 127) for _ in range(ln)]
        else:
            lo, hi = RANGES[n]
            d[n] = _edge(rng, lo, hi)
    return d


def byte_class(b):
    """Input class of a wire byte, for coverage tables (10 classes)."""
    if b < 0x80:
        return 'data'
    if b < 0xF0:
        return 'chan'
    if b == 0xF0:
        return 'F0'
    if b in (0xF1, 0xF3):
        return 'F1F3'
    if b == 0xF2:
        return 'F2'
    if b == 0xF6:
        return 'F6'
    if b == 0xF7:
        return 'F7'
    if b in (0xF4, 0xF5):
        return 'F4F5'
    if b in RT_DEFINED:
        return 'rt'
    return 'rtundef'


class AbstractTok:
    """Abstract tokenizer state used ONLY to measure reach (coverage cells), never as an oracle.

    States: idle, ch3a2 (3-byte channel msg awaiting 2), ch3a1, ch2a1, f13a1, f2a2, f2a1, sysex.
    """
    def __init__(self):
        self.s = 'idle'

    def step(self, b):
        s = self.s
        c = byte_class(b)
        if c == 'data':
            nxt = {'ch3a2': 'ch3a1', 'ch3a1': 'idle', 'ch2a1': 'idle', 'f13a1': 'idle',
                   'f2a2': 'f2a1', 'f2a1': 'idle', 'sysex': 'sysex', 'idle': 'idle'}[s]
        elif c == 'chan':
            nxt = 'ch2a1' if 0xC0 <= b <= 0xDF else 'ch3a2'
        elif c == 'F0':
            nxt = 'sysex'
        elif c == 'F1F3':
            nxt = 'f13a1'
        elif c == 'F2':
            nxt = 'f2a2'
        elif c in ('F6', 'F7'):
            nxt = 'idle'
        elif c == 'F4F5':
            nxt = s
        else:  # real time, defined or not
            nxt = 'sysex' if s == 'sysex' else 'idle'
        self.s = nxt
        return (s, c)
