"""./check selftest ... - sensitivity (mutants, DESIGN 6) and determinism self-tests.

  ./check selftest mutants [PROP|NAME-SUBSTRING ...] [--with-tests] [--tier quick] [--runs N]
      For every /verif/mutants/<PROP>-<name>.patch: copy /repo/mido (+tests) to a scratch
      directory under /tmp, apply the patch there (never in /repo), optionally run the existing
      test-suite against the copy (must pass), then run the property's check with
      VERIF_MIDO_ROOT pointing at the copy. Expected: exit 1 with a VIOLATION line.
  ./check selftest seeded [ID ...]      same for /verif/seeded/<id>/patch.diff (git apply format)
  ./check selftest determinism [PROP ...] [--seeds N]
"""
import argparse
import glob
import json
import os
import shutil
import subprocess
import sys
import tempfile
import time

from . import VERIF_ROOT

PY = sys.executable


def _scratch_copy():
    tmp = tempfile.mkdtemp(prefix='verif-mut-')
    shutil.copytree('/repo/mido', os.path.join(tmp, 'mido'),
                    ignore=shutil.ignore_patterns('__pycache__'))
    shutil.copytree('/repo/tests', os.path.join(tmp, 'tests'), ignore=shutil.ignore_patterns('__pycache__'))
    for f in ('pyproject.toml',):
        if os.path.exists('/repo/' + f):
            shutil.copy('/repo/' + f, tmp)
    return tmp


def _apply(tmp, patch):
    p = subprocess.run(['patch', '-p1', '-s', '-d', tmp, '-i', patch], capture_output=True, text=True)
    if p.returncode != 0:
        raise RuntimeError(f'patch {patch} does not apply: {p.stdout} {p.stderr}')


def _run_tests(tmp):
    env = dict(os.environ, PYTHONPATH=tmp, PYTHONDONTWRITEBYTECODE='1')
    p = subprocess.run([PY, '-m', 'pytest', '-q', '-x', '-p', 'no:cacheprovider', '--timeout=300',
                        '--deselect', 'tests/midifiles/test_tracks.py::test_merge_large_midifile', 'tests'],
                       cwd=tmp, env=env, capture_output=True, text=True, timeout=1200)
    tail = (p.stdout.strip().splitlines() or [''])[-1]
    return p.returncode == 0, tail


def _run_check(tmp, prop, tier, runs, timeout=3600):
    env = dict(os.environ, VERIF_MIDO_ROOT=tmp, VERIF_EVIDENCE_DIR=os.path.join(tmp, 'evidence'),
               PYTHONDONTWRITEBYTECODE='1')
    cmd = [PY, os.path.join(VERIF_ROOT, 'check'), prop, '--tier', tier, '--out-dir', os.path.join(tmp, 'replays')]
    if runs:
        cmd += ['--runs', str(runs)]
    t0 = time.time()
    try:
        p = subprocess.run(cmd, env=env, capture_output=True, text=True, timeout=timeout)
        rc, outp = p.returncode, p.stdout + p.stderr
    except subprocess.TimeoutExpired as e:
        rc, outp = 124, (e.stdout or b'').decode() if isinstance(e.stdout, bytes) else str(e.stdout)
    return rc, outp, time.time() - t0


def mutants(argv, seeded=False):
    ap = argparse.ArgumentParser()
    ap.add_argument('filters', nargs='*')
    ap.add_argument('--with-tests', action='store_true')
    ap.add_argument('--tier', default='quick')
    ap.add_argument('--runs', type=int)
    ap.add_argument('--verbose', action='store_true')
    a = ap.parse_args(argv)
    items = []
    if seeded:
        for d in sorted(glob.glob(os.path.join(VERIF_ROOT, 'seeded', '*'))):
            meta = os.path.join(d, 'meta.json')
            if os.path.exists(meta):
                m = json.load(open(meta))
                items.append((m['property'], os.path.basename(d), os.path.join(d, 'patch.diff')))
    else:
        for pth in sorted(glob.glob(os.path.join(VERIF_ROOT, 'mutants', '*.patch'))):
            base = os.path.basename(pth)[:-6]
            items.append((base.split('-', 1)[0], base, pth))
    if a.filters:
        items = [it for it in items if any(f in it[1] or f == it[0] for f in a.filters)]
    results = []
    for prop, name, patch in items:
        tmp = _scratch_copy()
        try:
            try:
                _apply(tmp, patch)
            except RuntimeError as e:
                # the tree moved on under the patch (e.g. a repair commit touched the same lines): say so and go on
                results.append({'mutant': name, 'property': prop, 'caught': False, 'rc': None, 'tests': None,
                                'wall_s': 0.0, 'signatures': [], 'stale': str(e)[:200]})
                print(f'STALE  {name}: {str(e)[:160]}')
                sys.stdout.flush()
                continue
            tests = None
            if a.with_tests:
                ok, tail = _run_tests(tmp)
                tests = 'pass' if ok else f'FAIL ({tail})'
            rc, outp, wall = _run_check(tmp, prop, a.tier, a.runs)
            sigs = [ln.strip() for ln in outp.splitlines() if 'violation signature=' in ln]
            caught = rc == 1 and 'VIOLATION property=' + prop in outp
            results.append({'mutant': name, 'property': prop, 'caught': caught, 'rc': rc,
                            'tests': tests, 'wall_s': round(wall, 1), 'signatures': sigs[:4]})
            print(f'{"CAUGHT" if caught else "MISSED"} {name} rc={rc} tests={tests} wall={wall:.1f}s '
                  f'{sigs[:2]}')
            if a.verbose or not caught:
                print('    ' + '\n    '.join(outp.strip().splitlines()[-12:]))
            sys.stdout.flush()
        finally:
            shutil.rmtree(tmp, ignore_errors=True)
    out = os.path.join(VERIF_ROOT, 'evidence', 'selftest-seeded.json' if seeded else 'selftest-mutants.json')
    prev = {}
    if os.path.exists(out):
        try:
            prev = {r['mutant']: r for r in json.load(open(out))['results']}
        except Exception:
            prev = {}
    for r in results:
        prev[r['mutant']] = r
    with open(out, 'w') as f:
        json.dump({'results': sorted(prev.values(), key=lambda r: r['mutant'])}, f, indent=1)
    missed = [r['mutant'] for r in results if not r['caught']]
    print(f'{len(results) - len(missed)}/{len(results)} caught' + (f'; missed: {missed}' if missed else ''))
    return 1 if missed else 0


def determinism(argv):
    ap = argparse.ArgumentParser()
    ap.add_argument('props', nargs='*')
    ap.add_argument('--seeds', type=int, default=4)
    ap.add_argument('--n', type=int, default=300)
    a = ap.parse_args(argv)
    from engines import _BY_PROP
    props = a.props or sorted(_BY_PROP)
    bad = 0
    for prop in props:
        for seed in range(1, a.seeds + 1):
            idxs = ','.join(str(i) for i in range(a.n))
            outs = []
            for hs in ('0', '1', '987654321'):
                env = dict(os.environ, VERIF_SEED=str(seed), PYTHONHASHSEED=hs)
                p = subprocess.run([PY, os.path.join(VERIF_ROOT, 'check'), prop, '--digests', idxs],
                                   env=env, capture_output=True, text=True, timeout=1800)
                line = [ln for ln in p.stdout.splitlines() if ln.startswith('DIGESTS ')]
                outs.append(line[-1] if line else f'rc={p.returncode} {p.stderr[-300:]}')
            same = len(set(outs)) == 1 and outs[0].startswith('DIGESTS')
            print(f'{prop} seed={seed} runs={a.n} x3 hash seeds: {"identical" if same else "MISMATCH"}')
            bad += 0 if same else 1
    return 2 if bad else 0


def simnet(argv):
    """Conformance: the same scripted operations on a real socketpair and on SimSocket must give the
    same observable results (data read, readiness, EOF, effect of closing in each order, fileno)."""
    import select
    import socket
    from . import simnet as sn

    class C:
        now = 0.0

    def real_pair():
        a, b = socket.socketpair()
        return a, b, (lambda s: bool(select.select([s], [], [], 0.05)[0])), None

    def sim_pair():
        net = sn.SimNet(C(), auto_latency=0.0)
        lst = net.socket()
        lst.bind(('h', 1))
        lst.listen(1)
        a = net.socket()
        a.connect(('h', 1))
        b, _ = lst.accept()
        return a, b, (lambda s: s.readable()), net

    def script(mk):
        out = []
        a, b, readable, net = mk()
        rf = a.makefile('rb', buffering=0)
        wf = a.makefile('wb', buffering=0)
        brf = b.makefile('rb', buffering=0)
        bwf = b.makefile('wb', buffering=0)
        out.append(('b readable before data', readable(b)))
        wf.write(b'\x90\x01\x02')
        wf.flush()
        out.append(('b readable after write', readable(b)))
        out.append(('b reads', brf.read(1), brf.read(1)))
        bwf.write(b'\xf8')
        out.append(('a reads', readable(a), rf.read(1)))
        a.close()
        out.append(('a.fileno() valid after socket.close with files open', a.fileno() >= 0))
        out.append(('b readable after a.close() only (one byte left)', readable(b), brf.read(1)))
        out.append(('b sees EOF after a.close() only', readable(b)))
        rf.close()
        out.append(('b sees EOF after rfile.close', readable(b)))
        wf.close()
        out.append(('b sees EOF after wfile.close', readable(b), brf.read(1)))
        out.append(('a.fileno() after everything closed', a.fileno()))
        errs = []
        for _ in range(3):
            try:
                bwf.write(b'x')
                errs.append('ok')
            except OSError as e:
                errs.append(type(e).__name__)
        out.append(('writes to a closed peer end in', errs[-1]))
        return out

    real = script(real_pair)
    sim = script(sim_pair)
    bad = 0
    for r, m in zip(real, sim):
        same = r == m
        bad += 0 if same else 1
        print(('same     ' if same else 'DIFFERENT'), r, '' if same else f'  sim: {m}')
    print(f'simnet conformance: {len(real) - bad}/{len(real)} observations identical')
    return 2 if bad else 0


def main(argv):
    if not argv:
        print(__doc__)
        return 2
    if argv[0] == 'mutants':
        return mutants(argv[1:])
    if argv[0] == 'seeded':
        return mutants(argv[1:], seeded=True)
    if argv[0] == 'determinism':
        return determinism(argv[1:])
    if argv[0] == 'simnet':
        return simnet(argv[1:])
    print(__doc__)
    return 2
