"""Multi-process batch runner, watchdogs, replay, minimisation, known findings, evidence
(DESIGN 2.2, 2.7 - 2.10).

Exit codes: 0 property held on everything explored (possibly KNOWN-FINDING lines),
            1 at least one VIOLATION line, 2 HARNESS-ERROR (never 0 after a timeout).
"""
import collections
import concurrent.futures as cf
import faulthandler
import json
import multiprocessing
import os
import signal
import subprocess
import sys
import time
import traceback

from . import HarnessError, VERIF_ROOT, MIDO_ROOT
from .choice import derive
from .shrink import minimise

RUN_WALL_LIMIT = float(os.environ.get('VERIF_RUN_WALL', '30'))     # seconds per single run
ISOLATE_EVERY = int(os.environ.get('VERIF_ISOLATE_EVERY', '25'))
_WORKER_STATE = {}
DIGEST_CAP = 3_000_000


class RunTimeout(BaseException):
    pass


def _alarm(signum, frame):
    raise RunTimeout()


def guarded_run(eng, prop, plan, keep_log=False, limit=None):
    """Execute one plan. A run that exceeds the wall limit is reported as outcome 'hang'
    (classified by the caller), anything escaping the engine as a harness error."""
    limit = limit or RUN_WALL_LIMIT
    old = signal.signal(signal.SIGALRM, _alarm)
    signal.setitimer(signal.ITIMER_REAL, limit)
    try:
        out = eng.run(prop, plan, keep_log=keep_log)
    except RunTimeout:
        eng.abort_cleanup()
        out = {'viol': {'sig': 'hang:wallclock', 'msg': f'run exceeded {limit}s wall clock'},
               'digest': 'hang', 'nontrivial': False, 'stats': {}, 'cov': (), 'hang': True}
    except (KeyboardInterrupt, SystemExit):
        raise
    except BaseException:
        # includes simulator-internal control exceptions (SimAbort) that escaped an engine: a harness fault
        signal.setitimer(signal.ITIMER_REAL, 0)
        eng.abort_cleanup()
        out = {'viol': None, 'digest': 'error', 'nontrivial': False, 'stats': {}, 'cov': (),
               'harness_error': traceback.format_exc()}
    finally:
        signal.setitimer(signal.ITIMER_REAL, 0)
        signal.signal(signal.SIGALRM, old)
    return out


def isolated_run(eng, prop, plan, keep_log=False, limit=None):
    """Execute one plan in a forked child of the (pristine) controlling process, so that nothing an earlier
    execution left behind in process-wide state (caches, leaked globals) can influence it - and nothing it
    leaves behind can influence the next one. Used for witnesses, minimisation candidates and the run whose
    event log goes into the replay file."""
    import pickle
    r, w = os.pipe()
    pid = os.fork()
    if pid == 0:
        code = 0
        try:
            os.close(r)
            out = guarded_run(eng, prop, plan, keep_log=keep_log, limit=limit)
            out['cov'] = list(out.get('cov', ()))
            out['stats'] = dict(out.get('stats', {}))
            with os.fdopen(w, 'wb') as f:
                f.write(pickle.dumps(out))
        except BaseException:
            code = 1
        finally:
            os._exit(code)
    os.close(w)
    with os.fdopen(r, 'rb') as f:
        data = f.read()
    os.waitpid(pid, 0)
    if not data:
        return {'viol': None, 'digest': 'error', 'nontrivial': False, 'stats': {}, 'cov': (),
                'harness_error': 'isolated child produced no result'}
    return pickle.loads(data)


class Zygote:
    """A pristine copy of a worker process, forked before the worker executed anything. It never executes a
    plan itself; for every request it forks a grandchild that does, so that those runs see a process in which
    nothing has happened yet - even though the worker that asks has executed thousands of runs."""
    def __init__(self, prop):
        import pickle
        import struct
        self._pickle, self._struct = pickle, struct
        req_r, req_w = os.pipe()
        res_r, res_w = os.pipe()
        pid = os.fork()
        if pid == 0:
            os.close(req_w)
            os.close(res_r)
            try:
                from engines import get_engine
                eng = get_engine(prop)
                fin = os.fdopen(req_r, 'rb')
                while True:
                    head = fin.read(4)
                    if len(head) < 4:
                        break
                    plan, keep_log, limit, avoid = pickle.loads(fin.read(struct.unpack('>I', head)[0]))
                    eng.avoid = set(avoid)
                    gpid = os.fork()
                    if gpid == 0:
                        code = 0
                        try:
                            out = guarded_run(eng, prop, plan, keep_log=keep_log, limit=limit)
                            out['cov'] = list(out.get('cov', ()))
                            out['stats'] = dict(out.get('stats', {}))
                            data = pickle.dumps(out)
                        except BaseException:
                            data = pickle.dumps({'viol': None, 'digest': 'error', 'nontrivial': False, 'stats': {},
                                                 'cov': [], 'harness_error': traceback.format_exc()})
                            code = 1
                        try:
                            os.write(res_w, struct.pack('>I', len(data)))
                            view = memoryview(data)
                            while view:
                                n = os.write(res_w, view[:65536])
                                view = view[n:]
                        finally:
                            os._exit(code)
                    _, status = os.waitpid(gpid, 0)
                    if status != 0 and not os.WIFEXITED(status):
                        # the grandchild died without answering: answer for it
                        data = pickle.dumps({'viol': None, 'digest': 'error', 'nontrivial': False, 'stats': {},
                                             'cov': [], 'harness_error': f'isolated run died (status {status})'})
                        os.write(res_w, struct.pack('>I', len(data)) + data)
            finally:
                os._exit(0)
        os.close(req_r)
        os.close(res_w)
        self.pid = pid
        self.w = os.fdopen(req_w, 'wb')
        self.r = os.fdopen(res_r, 'rb')

    def run(self, plan, keep_log=False, limit=None, avoid=()):
        data = self._pickle.dumps((plan, keep_log, limit, list(avoid)))
        self.w.write(self._struct.pack('>I', len(data)) + data)
        self.w.flush()
        head = self.r.read(4)
        if len(head) < 4:
            return {'viol': None, 'digest': 'error', 'nontrivial': False, 'stats': {}, 'cov': (),
                    'harness_error': 'pristine-process server went away'}
        return self._pickle.loads(self.r.read(self._struct.unpack('>I', head)[0]))


_ZYGOTE = {}


def pristine_run(eng, prop, plan, keep_log=False, limit=None):
    z = _ZYGOTE.get(prop)
    if z is None:
        return isolated_run(eng, prop, plan, keep_log=keep_log, limit=limit)
    return z.run(plan, keep_log=keep_log, limit=limit, avoid=sorted(eng.avoid))


def plan_size(plan):
    return len(json.dumps(plan, sort_keys=True, default=str))


def _worker(args):
    from engines import get_engine
    (prop, seed, tier, start, stop, sample_set, want_samples, avoid) = args
    faulthandler.dump_traceback_later(max(600, RUN_WALL_LIMIT * 4), exit=True)
    eng = get_engine(prop)
    eng.avoid = set(avoid)
    if prop not in _ZYGOTE and not _WORKER_STATE.get('ran'):
        _ZYGOTE[prop] = Zygote(prop)      # this process has not executed a single run yet: keep a pristine copy
    _WORKER_STATE['ran'] = True
    stats = collections.Counter()
    cov = set()
    digests = []
    viols = {}
    harness = []
    sampled = {}
    samples = []
    n_nontrivial = 0
    sim_s = 0.0
    from . import simtime
    armed = simtime.real_time()
    for idx in range(start, stop):
        if simtime.real_time() - armed > 60:
            # the last-resort watchdog guards against a single stuck run, not against a long chunk
            faulthandler.dump_traceback_later(max(600, RUN_WALL_LIMIT * 4), exit=True)
            armed = simtime.real_time()
        plan = eng.gen(prop, seed, idx, tier)
        if idx % ISOLATE_EVERY == ISOLATE_EVERY - 1 or eng.wants_isolation(plan):
            # a sample of the runs is executed in a freshly forked, pristine child: whatever the first call of a
            # kind does in a process (build a cache, set a global) happens inside the run that is judged
            out = pristine_run(eng, prop, plan)
            out['stats'] = collections.Counter(out.get('stats', {}))
            out['stats']['runs_in_pristine_process'] += 1
        else:
            out = guarded_run(eng, prop, plan)
        if 'harness_error' in out:
            if len(harness) < 3:
                harness.append((idx, out['harness_error']))
            continue
        for k, v in out['stats'].items():
            stats[k] += v
        cov.update(out['cov'])
        sim_s += out.get('sim_s', 0.0)
        if out['nontrivial']:
            n_nontrivial += 1
            digests.append(int(out['digest'], 16) if out['digest'] not in ('hang',) else 0)
        if idx in sample_set:
            sampled[idx] = out['digest']
        if out['viol'] is not None:
            sig = out['viol']['sig']
            final = out.get('final_plan', plan)
            size = plan_size(final)
            ent = viols.setdefault(sig, {'count': 0, 'cands': [], 'iso': 0})
            ent['count'] += 1
            # does the plan fail on its own, in a clean process? (a worker has executed other runs before)
            alone = 1
            if (ent['iso'] < 25 or (ent['iso'] < 200 and ent['count'] % 5 == 0)) and \
                    not any(c[0] == 0 for c in ent['cands'][:2]):
                ent['iso'] += 1
                o2 = pristine_run(eng, prop, final)
                if 'harness_error' not in o2 and o2['viol'] is not None and eng.same_signature(o2['viol']['sig'], sig):
                    alone = 0
            ent['cands'].append((alone, size, idx, final, out['viol']))
            ent['cands'].sort(key=lambda c: (c[0], c[1], c[2]))
            del ent['cands'][4:]
        if len(samples) < want_samples:
            samples.append({'run_index': idx, 'plan': eng.sample_view(plan),
                            'outcome': 'violation ' + out['viol']['sig'] if out['viol'] else 'held',
                            'digest': out['digest']})
    faulthandler.cancel_dump_traceback_later()
    return {'n': stop - start, 'stats': stats, 'cov': cov, 'digests': digests, 'viols': viols,
            'harness': harness, 'sampled': sampled, 'samples': samples,
            'n_nontrivial': n_nontrivial, 'sim_s': sim_s}


def _rerun_worker(args):
    from engines import get_engine
    prop, seed, tier, indices, avoid = args
    eng = get_engine(prop)
    eng.avoid = set(avoid)
    res = {}
    for idx in indices:
        plan = eng.gen(prop, seed, idx, tier)
        res[idx] = guarded_run(eng, prop, plan)['digest']
    return res


def load_known():
    path = os.path.join(VERIF_ROOT, 'known_findings.json')
    if not os.path.exists(path):
        return []
    with open(path) as f:
        return json.load(f).get('findings', [])


def _pool(jobs):
    ctx = multiprocessing.get_context('fork')
    return cf.ProcessPoolExecutor(max_workers=jobs, mp_context=ctx)


def _chunks(total, jobs, target_chunks_per_job=6, min_chunk=20):
    size = max(min_chunk, total // (jobs * target_chunks_per_job) or 1)
    out = []
    s = 0
    while s < total:
        out.append((s, min(total, s + size)))
        s += size
    return out


def fresh_digests(prop, seed, tier, indices, hashseed):
    env = dict(os.environ)
    env['PYTHONHASHSEED'] = str(hashseed)
    env['VERIF_SEED'] = str(seed)
    cmd = [sys.executable, os.path.join(VERIF_ROOT, 'check'), prop, '--tier', tier,
           '--digests', ','.join(str(i) for i in indices)]
    p = subprocess.run(cmd, env=env, capture_output=True, text=True, timeout=900)
    if p.returncode != 0:
        raise HarnessError(f'fresh-interpreter digest run failed rc={p.returncode}: {p.stderr[-2000:]}')
    line = [ln for ln in p.stdout.splitlines() if ln.startswith('DIGESTS ')][-1]
    return {int(k): v for k, v in json.loads(line[8:]).items()}


def replay_in_fresh_process(prop, path, hashseed=4242, timeout=300):
    env = dict(os.environ)
    env['PYTHONHASHSEED'] = str(hashseed)
    cmd = [sys.executable, os.path.join(VERIF_ROOT, 'check'), prop, '--replay', path, '--quiet']
    try:
        p = subprocess.run(cmd, env=env, capture_output=True, text=True, timeout=timeout)
    except subprocess.TimeoutExpired:
        return {'sig': 'hang:wallclock', 'digest': 'hang'}
    for ln in p.stdout.splitlines():
        if ln.startswith('REPLAY-RESULT '):
            return json.loads(ln[len('REPLAY-RESULT '):])
    raise HarnessError(f'replay subprocess gave no result rc={p.returncode}: {p.stdout[-1000:]} {p.stderr[-2000:]}')


def do_replay(eng, prop, path, quiet=False):
    with open(path) as f:
        rep = json.load(f)
    plan = rep['plan']
    out = guarded_run(eng, prop, plan, keep_log=not quiet, limit=RUN_WALL_LIMIT * 2)
    if 'harness_error' in out:
        print('HARNESS-ERROR replay raised inside the harness:\n' + out['harness_error'])
        return 2
    sig = out['viol']['sig'] if out['viol'] else None
    if not quiet:
        for e in out.get('events') or []:
            print('  event', e)
        print('expected signature:', rep.get('violation', {}).get('signature'))
        print('observed :', sig, '-', out['viol']['msg'] if out['viol'] else 'property held')
    print('REPLAY-RESULT ' + json.dumps({'sig': sig, 'digest': out['digest']}))
    if sig is not None:
        print(f'VIOLATION property={prop} replay={path}')
        return 1
    return 0


def run_check(eng, prop, tier, seed, runs=None, jobs=None, out_dir=None):
    t0 = time.time()
    jobs = jobs or int(os.environ.get('VERIF_JOBS', '0')) or min(16, os.cpu_count() or 4)
    total = runs or eng.tiers(prop)[tier]
    known = [k for k in load_known() if k['property'] == prop]
    known_open = {k['signature']: k for k in known if k.get('status') == 'known'}
    avoid = sorted({a for k in known_open.values() for a in k.get('avoid', [])})
    eng.avoid = set(avoid)
    print(f'VERIF_SEED={seed} property={prop} engine={eng.name} tier={tier} runs={total} jobs={jobs} '
          f'mido={MIDO_ROOT}')
    sys.stdout.flush()

    n_in = min(total, 200 if tier == 'quick' else 2000)
    n_fresh = min(total, 50 if tier == 'quick' else 500)
    step = max(1, total // n_in)
    sample_in = list(range(0, total, step))[:n_in]
    fstep = max(1, len(sample_in) // n_fresh)
    sample_fresh = sample_in[::fstep][:n_fresh]
    sample_set = frozenset(sample_in)

    chunks = _chunks(total, jobs)
    agg_stats = collections.Counter()
    cov = set()
    digest_set = set()
    viols = {}
    harness = []
    sampled = {}
    samples = []
    n_done = 0
    n_nontrivial = 0
    sim_s = 0.0
    batch_limit = float(os.environ.get('VERIF_BATCH_WALL', '0')) or (1800 if tier == 'quick' else 6 * 3600)
    with _pool(jobs) as pool:
        futs = [pool.submit(_worker, (prop, seed, tier, a, b, sample_set, 3 if i == 0 else 0, avoid))
                for i, (a, b) in enumerate(chunks)]
        try:
            for fu in cf.as_completed(futs, timeout=batch_limit):
                r = fu.result()
                n_done += r['n']
                agg_stats.update(r['stats'])
                cov.update(r['cov'])
                n_nontrivial += r['n_nontrivial']
                sim_s += r['sim_s']
                if len(digest_set) < DIGEST_CAP:
                    digest_set.update(r['digests'])
                harness.extend(r['harness'])
                sampled.update(r['sampled'])
                samples.extend(r['samples'])
                for sig, v in r['viols'].items():
                    ent = viols.setdefault(sig, {'count': 0, 'cands': []})
                    ent['count'] += v['count']
                    ent['cands'].extend(v['cands'])
                    ent['cands'].sort(key=lambda c: (c[0], c[1], c[2]))
                    del ent['cands'][6:]
        except cf.TimeoutError:
            for p in list(pool._processes.values()):
                p.kill()
            print(f'HARNESS-ERROR batch exceeded wall-clock watchdog of {batch_limit}s')
            return 2
        except cf.process.BrokenProcessPool as e:
            print(f'HARNESS-ERROR worker died: {e}')
            return 2
    if harness:
        idx, tb = harness[0]
        print(f'HARNESS-ERROR {len(harness)} run(s) raised inside the harness; first run_index={idx}\n{tb}')
        return 2
    batch_wall = time.time() - t0

    # ---- determinism self-test (DESIGN 2.7) ----
    mismatches = []
    with _pool(jobs) as pool:
        parts = [sample_in[i::jobs] for i in range(jobs)]
        for res in pool.map(_rerun_worker, [(prop, seed, tier, p, avoid) for p in parts if p]):
            for idx, dg in res.items():
                if sampled.get(idx) != dg:
                    mismatches.append(('in-process', idx, sampled.get(idx), dg))
    hs = 1 + derive('hashseed', seed, prop) % 4000000000
    fres = fresh_digests(prop, seed, tier, sample_fresh, hs)
    for idx, dg in fres.items():
        if sampled.get(idx) != dg:
            mismatches.append(('fresh-interpreter', idx, sampled.get(idx), dg))
    nondeterministic = bool(mismatches)

    # ---- violations: known findings, minimise, replay-verify, report ----
    exit_code = 0
    harness_problem = False
    reported = []
    known_seen = []
    # committed witnesses of known findings are replayed even if the batch avoided them
    for sig, k in known_open.items():
        wit = k.get('witness')
        if wit:
            res = replay_in_fresh_process(prop, os.path.join(VERIF_ROOT, wit))
            if res['sig'] == sig:
                print(f'KNOWN-FINDING: property={prop} {k["what"]} [signature {sig}; witness {wit}]')
                known_seen.append(sig)
    # witnesses of repaired findings are replayed as regression tests; a 'fixed' entry suppresses nothing
    for k in known:
        if k.get('status') == 'fixed' and k.get('witness'):
            wpath = os.path.join(VERIF_ROOT, k['witness'])
            try:
                with open(wpath) as f:
                    wplan = json.load(f)['plan']
            except (OSError, ValueError, KeyError):
                continue
            o = isolated_run(eng, prop, wplan)
            if 'harness_error' not in o and o['viol'] is not None and o['viol']['sig'] not in viols:
                fp = o.get('final_plan', wplan)
                viols[o['viol']['sig']] = {'count': 1, 'cands': [(0, plan_size(fp), -1, fp, o['viol'])]}
    rep_dir = out_dir or os.path.join(VERIF_ROOT, 'replays')
    os.makedirs(rep_dir, exist_ok=True)
    budget = 2000 if tier == 'quick' else 20000
    for sig in sorted(viols, key=lambda s: viols[s]['cands'][0][:2])[:8]:
        count = viols[sig]['count']
        _, size, idx, plan, viol = viols[sig]['cands'][0]
        if sig in known_open:
            if sig not in known_seen:
                print(f'KNOWN-FINDING: property={prop} {known_open[sig]["what"]} [signature {sig}; seen in batch]')
                known_seen.append(sig)
            continue
        tmin = time.time()

        def run_fn(cand):
            o = isolated_run(eng, prop, cand)
            if 'harness_error' in o or o['viol'] is None:
                return None, None
            return o['viol']['sig'], o.get('final_plan', cand)

        first = (None, None)
        for _, size, idx, plan, viol in viols[sig]['cands']:
            first = run_fn(plan)
            if first[0] is not None and eng.same_signature(first[0], sig):
                break
        if first[0] is None or not eng.same_signature(first[0], sig):
            # found in a worker that had executed other runs before, but not reproducible on its own: the
            # outcome depended on what earlier runs left behind in the process
            print(f'HARNESS-ERROR violation {sig} (seen in {count} run(s), e.g. run {idx}) does not reproduce when its '
                  f'plan is executed alone in a clean process: it depended on state left behind by earlier runs in '
                  f'the same worker')
            harness_problem = True
            continue
        is_hang = sig.startswith('hang:')
        if is_hang:
            mplan, used = plan, 0
        else:
            try:
                mplan, used = minimise(run_fn, lambda p: eng.shrink(prop, p), plan, sig,
                                       budget, same=eng.same_signature,
                                       wall_limit=45 if tier == 'quick' else 300)
            except Exception:
                # a fault in the shrinker must never lose the violation: report it unminimised
                print('  (minimiser failed, reporting the unminimised plan)\n' + traceback.format_exc())
                mplan, used = plan, 0
        out = isolated_run(eng, prop, mplan, keep_log=True)
        mviol = out['viol'] or viol
        path = os.path.join(rep_dir, f'{prop}-s{seed}-r{idx if idx >= 0 else "witness"}.json')
        rep = {'property': prop, 'engine': eng.name, 'seed': seed, 'run_index': idx, 'tier': tier,
               'plan': out.get('final_plan', mplan),
               'violation': {'signature': mviol['sig'], 'message': mviol['msg']},
               'event_log_digest': out['digest'], 'minimised': used > 0,
               'minimise_executions': used, 'minimise_wall_s': round(time.time() - tmin, 2),
               'original': {'size': size, 'runs_with_this_signature': count},
               'event_log': out.get('events')}
        with open(path, 'w') as f:
            json.dump(rep, f, indent=1, default=str)
        res = replay_in_fresh_process(prop, path)
        if res['sig'] is None or not eng.same_signature(res['sig'], mviol['sig']) or \
                (res['digest'] != out['digest'] and not is_hang):
            print(f'HARNESS-ERROR violation {mviol["sig"]} (run {idx}) did not replay identically in a fresh '
                  f'process: got {res}; replay file {path}')
            harness_problem = True
            continue
        print(f'  violation signature={mviol["sig"]} runs={count} first_run_index={idx} '
              f'plan_size {size}->{plan_size(rep["plan"])} ({used} minimisation runs)\n    {mviol["msg"]}')
        print(f'VIOLATION property={prop} replay={path}')
        reported.append(mviol['sig'])
        exit_code = max(exit_code, 1)

    if nondeterministic:
        # Runs that are not repeatable: never exit 0. If a violation was nevertheless confirmed by an exact
        # replay in a fresh process it stands (process-wide state in the tree under test - a cache, a leaked
        # global - makes runs depend on their predecessors, which is itself what some properties forbid).
        print(f'HARNESS-ERROR nondeterminism: {len(mismatches)} digest mismatches between repeated executions of '
              f'the same run, e.g. {mismatches[:3]}' + (' (violations above were each confirmed by an exact replay '
                                                       'in a fresh process)' if reported else ''))
        harness_problem = True
    if harness_problem and exit_code == 0:
        exit_code = 2      # never 0 when something could not be trusted; a confirmed violation stays exit 1
    wall = time.time() - t0
    ev = {
        'property_id': prop, 'tier': tier, 'seed': seed, 'level': eng.level(prop),
        'coverage': {
            'evaluations': n_done,
            'distinct_nontrivial': len(digest_set),
            'rule': eng.rule(prop) + (' Distinctness = distinct blake2b digests of the canonical event log '
                                      'among non-trivial runs' +
                                      (f' (set capped at {DIGEST_CAP}: lower bound)' if len(digest_set) >= DIGEST_CAP else '')),
            'samples': samples[:3],
            'nontrivial_runs': n_nontrivial,
            'runs_per_hour': int(n_done / max(batch_wall, 1e-9) * 3600),
            'simulated_seconds': round(sim_s, 3),
            'steps': agg_stats.get('steps', 0),
            'faults_fired': {k[6:]: v for k, v in sorted(agg_stats.items()) if k.startswith('fault:')},
            'probes': {k[6:]: v for k, v in sorted(agg_stats.items()) if k.startswith('probe:')},
            'counters': {k: v for k, v in sorted(agg_stats.items())
                         if not k.startswith(('fault:', 'probe:')) and k != 'steps'},
            'coverage_table': eng.coverage_report(prop, cov),
            'determinism': {'rerun_in_process': len(sample_in), 'rerun_fresh_interpreter': len(sample_fresh),
                            'fresh_PYTHONHASHSEED': hs, 'mismatches': len(mismatches)},
            'components': eng.components(prop),
            'known_findings_seen': known_seen,
            'violation_signatures': reported,
            'jobs': jobs,
        },
        'assumptions': eng.assumptions(prop),
        'wall_s': round(wall, 2),
        'violations': len(reported),
    }
    ev_dir = os.environ.get('VERIF_EVIDENCE_DIR') or os.path.join(VERIF_ROOT, 'evidence')
    os.makedirs(ev_dir, exist_ok=True)
    for name in eng.probe_names(prop):
        ev['coverage']['probes'].setdefault(name, 0)
    with open(os.path.join(ev_dir, f'{prop}.json'), 'w') as f:
        json.dump(ev, f, indent=1, sort_keys=True, default=str)
    zero = [k for k, v in ev['coverage']['probes'].items() if v == 0]
    print(f'done: {n_done} runs, {len(digest_set)} distinct non-trivial, {ev["coverage"]["runs_per_hour"]} runs/h, '
          f'sim {sim_s:.1f}s, wall {wall:.1f}s, violations {len(reported)}, known {len(known_seen)}'
          + (f', probes at zero: {zero}' if zero else ''))
    return exit_code
