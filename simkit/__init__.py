"""simkit - deterministic simulation kit for mido (see /verif/DESIGN.md section 2).

bootstrap() puts the tree under test first on sys.path so that every check imports
/repo's *current working tree* (or VERIF_MIDO_ROOT for the mutant self-test), never a
cached or installed copy, and never writes byte code next to it.
"""
import os
import sys

MIDO_ROOT = os.path.realpath(os.environ.get('VERIF_MIDO_ROOT', '/repo'))
VERIF_ROOT = os.path.dirname(os.path.dirname(os.path.realpath(__file__)))


class HarnessError(Exception):
    """A failure of the machinery itself (never reported as a violation, never as exit 0)."""


def bootstrap():
    from . import simtime
    simtime.install()      # before the tree under test is imported, so that `from time import ...` binds to the seam
    sys.dont_write_bytecode = True
    os.environ['PYTHONDONTWRITEBYTECODE'] = '1'
    if not sys.path or sys.path[0] != MIDO_ROOT:
        sys.path.insert(0, MIDO_ROOT)
    import mido
    got = os.path.realpath(mido.__file__)
    if not got.startswith(MIDO_ROOT + os.sep):
        raise HarnessError(f'mido imported from {got}, expected under {MIDO_ROOT}')
    return mido
