"""One integer decides everything: seed derivation (DESIGN 2.1).

Sub-streams are derived with blake2b over a textual label path - never with hash(),
which varies with PYTHONHASHSEED.
"""
import hashlib
import random


def derive(*labels):
    text = '/'.join(str(x) for x in labels).encode()
    return int.from_bytes(hashlib.blake2b(text, digest_size=8).digest(), 'big')


def rng_for(*labels):
    return random.Random(derive(*labels))


class Log:
    """Canonical event log. Never draws from a PRNG, never reads a clock."""
    __slots__ = ('h', 'events', 'n')

    def __init__(self, keep=False):
        self.h = hashlib.blake2b(digest_size=8)
        self.events = [] if keep else None
        self.n = 0

    def ev(self, *items):
        self.n += 1
        self.h.update(repr(items).encode())
        if self.events is not None:
            self.events.append(items)

    def digest(self):
        return self.h.hexdigest()


def pick(rng, seq):
    return seq[rng.randrange(len(seq))]


def weighted(rng, pairs):
    """pairs: [(item, weight)...]"""
    total = sum(w for _, w in pairs)
    x = rng.random() * total
    for item, w in pairs:
        x -= w
        if x < 0:
            return item
    return pairs[-1][0]
