"""In-memory storage with fault plans (DESIGN 2.6) and an independent Standard MIDI File walker.

SimDisk: name -> bytearray, handles with read/write/tell/seek/close. Fault plan per handle:
  fail_read_at  = i      OSError(EIO) at the i-th read call
  eof_at        = k      the file ends after k bytes (truncated / torn file)
  read_cap      = k      a read of more than k bytes returns only k (short read of a raw stream)
  fail_write_at = (i, keep, errno)   OSError at the i-th write call after persisting `keep`
                                      bytes of that call's data (0 = nothing, short/torn write)
At-rest faults are applied to the stored bytes between a save and a later load.
Every handle given out is remembered so that "was it closed?" can be asked afterwards.
"""
import errno as _errno


class SimHandle:
    def __init__(self, disk, name, mode, fault=None):
        self.disk = disk
        self.name = name
        self.mode = mode
        self.pos = 0
        self.closed = False
        self.fault = dict(fault or {})
        self.reads = 0
        self.writes = 0
        self.fault_fired = None
        self.short_reads = 0
        if 'w' in mode:
            disk.files[name] = bytearray()
        elif name not in disk.files:
            raise FileNotFoundError(2, 'No such file or directory', name)

    # -- reading
    def read(self, n=-1):
        if self.closed:
            raise ValueError('I/O operation on closed file.')
        i = self.reads
        self.reads += 1
        if self.fault.get('fail_read_at') == i:
            self.fault_fired = 'read_error'
            raise OSError(_errno.EIO, 'simulated read error')
        data = self.disk.files[self.name]
        end = len(data)
        if 'eof_at' in self.fault:
            end = min(end, self.fault['eof_at'])
        if n is None or n < 0:
            n = max(0, end - self.pos)
        cap = self.fault.get('read_cap')
        if cap and n > cap and end - self.pos > cap:
            n = cap                    # a raw stream may hand out fewer bytes than asked for
            self.short_reads += 1
        chunk = bytes(data[self.pos:min(end, self.pos + n)])
        if len(chunk) < n and 'eof_at' in self.fault and self.fault['eof_at'] < len(data):
            self.fault_fired = 'truncated'
        self.pos += len(chunk)
        return chunk

    def tell(self):
        return self.pos

    def seekable(self):
        return True

    def readable(self):
        return 'r' in self.mode

    def writable(self):
        return 'w' in self.mode or 'a' in self.mode

    def seek(self, pos, whence=0):
        if whence == 0:
            self.pos = pos
        elif whence == 1:
            self.pos += pos
        else:
            self.pos = len(self.disk.files[self.name]) + pos
        return self.pos

    # -- writing
    def write(self, data):
        if self.closed:
            raise ValueError('I/O operation on closed file.')
        i = self.writes
        self.writes += 1
        data = bytes(data)
        fw = self.fault.get('fail_write_at')
        buf = self.disk.files[self.name]
        if fw is not None and fw[0] == i:
            keep = min(fw[1], len(data))
            buf[self.pos:self.pos + keep] = data[:keep]
            self.pos += keep
            self.fault_fired = 'write_error_torn' if keep else 'write_error'
            raise OSError(fw[2], 'simulated write error')
        buf[self.pos:self.pos + len(data)] = data
        self.pos += len(data)
        return len(data)

    def flush(self):
        pass

    def close(self):
        self.closed = True

    def __enter__(self):
        return self

    def __exit__(self, *exc):
        self.close()
        return False


class SizedHandle(SimHandle):
    """A handle that also reports how much it holds (len() of an empty one is 0, so it is falsy while empty) -
    legal for a sink: chunk collectors and bytearray-like writers behave this way."""
    def __len__(self):
        return len(self.disk.files.get(self.name, b''))


class SimDisk:
    def __init__(self):
        self.files = {}
        self.handles = []
        self.next_fault = None

    def open(self, name, mode='rb', *a, **kw):
        h = SimHandle(self, name, mode, self.next_fault)
        self.next_fault = None
        self.handles.append(h)
        return h

    def handle(self, name, mode='rb', fault=None, sized=False):
        h = (SizedHandle if sized else SimHandle)(self, name, mode, fault)
        self.handles.append(h)
        return h

    def handle_from(self, image, name='tmp.mid'):
        self.files[name] = bytearray(image)
        return self.handle(name, 'rb')

    def unclosed(self):
        return [h.name for h in self.handles if not h.closed]


ENOSPC = _errno.ENOSPC
EIO = _errno.EIO


# ------------------------------------------------------------------ independent SMF walker

class SMFError(Exception):
    pass


def _vlq(data, pos):
    val = 0
    for _ in range(5):      # the format allows 4 bytes; one more is tolerated (judging that is C08's business)
        if pos >= len(data):
            raise SMFError('truncated variable-length quantity')
        b = data[pos]
        pos += 1
        val = (val << 7) | (b & 0x7F)
        if b < 0x80:
            return val, pos
    raise SMFError('variable-length quantity longer than 5 bytes')


def walk_smf(image):
    """Decode a Standard MIDI File image into (type, ntracks, division, [track...]); a track is a
    list of (delta, kind, a, b): ('midi', status, data-bytes) / ('sysex', 0xF0|0xF7, payload) /
    ('meta', type, payload). Written from the SMF 1.0 specification, independent of mido."""
    data = bytes(image)
    if data[:4] != b'MThd' or len(data) < 14:
        raise SMFError('no MThd')
    hlen = int.from_bytes(data[4:8], 'big')
    ftype = int.from_bytes(data[8:10], 'big')
    ntracks = int.from_bytes(data[10:12], 'big')
    division = int.from_bytes(data[12:14], 'big')
    pos = 8 + hlen
    tracks = []
    for _ in range(ntracks):
        if data[pos:pos + 4] != b'MTrk':
            raise SMFError(f'no MTrk at {pos}')
        tlen = int.from_bytes(data[pos + 4:pos + 8], 'big')
        pos += 8
        end = pos + tlen
        if end > len(data):
            raise SMFError('track chunk longer than file')
        events = []
        running = None
        while pos < end:
            delta, pos = _vlq(data, pos)
            if pos >= end:
                raise SMFError('event missing after delta')
            st = data[pos]
            if st == 0xFF:
                mtype = data[pos + 1]
                ln, p2 = _vlq(data, pos + 2)
                events.append((delta, 'meta', mtype, data[p2:p2 + ln]))
                pos = p2 + ln
                running = None
            elif st in (0xF0, 0xF7):
                ln, p2 = _vlq(data, pos + 1)
                events.append((delta, 'sysex', st, data[p2:p2 + ln]))
                pos = p2 + ln
                running = None
            else:
                if st >= 0x80:
                    pos += 1
                    status = st
                    if st < 0xF0:
                        running = st
                    else:
                        running = None
                else:
                    if running is None:
                        raise SMFError('running status without status')
                    status = running
                hi = status & 0xF0
                if hi in (0xC0, 0xD0) or status in (0xF1, 0xF3):
                    n = 1
                elif status < 0xF0 or status == 0xF2:
                    n = 2
                elif status in (0xF6,) or status >= 0xF8:
                    n = 0
                else:
                    raise SMFError(f'undefined status {status:#x}')
                events.append((delta, 'midi', status, data[pos:pos + n]))
                pos += n
            if pos > end:
                raise SMFError('event runs past the end of its track chunk')
        tracks.append(events)
        pos = end
    return ftype, ntracks, division, tracks


# ------------------------------------------------------------------ independent SMF writer

def enc_vlq(n, pad=0):
    """Variable-length quantity; pad > 0 prepends that many 0x80 bytes (legal, non-minimal)."""
    out = [n & 0x7F]
    n >>= 7
    while n:
        out.append((n & 0x7F) | 0x80)
        n >>= 7
    out.extend([0x80] * pad)
    return bytes(reversed(out))


def write_smf(ftype, division, tracks, header_extra=b'', declared_tracks=None):
    """Build an SMF image from event lists. An event is (delta, kind, ...):
      ('midi', status, data_bytes, use_running_status)   ('meta', type, payload, vlq_pad)
      ('sysex', 0xF0|0xF7, payload, vlq_pad)
    with delta = (ticks, vlq_pad). Written from the SMF specification, independent of mido."""
    out = bytearray(b'MThd')
    out += (6 + len(header_extra)).to_bytes(4, 'big')
    n = len(tracks) if declared_tracks is None else declared_tracks
    out += ftype.to_bytes(2, 'big') + n.to_bytes(2, 'big') + division.to_bytes(2, 'big') + header_extra
    for tr in tracks:
        body = bytearray()
        running = None
        for ev in tr:
            (ticks, dpad), kind = ev[0], ev[1]
            body += enc_vlq(ticks, dpad)
            if kind == 'midi':
                _, _, status, data, use_rs = ev
                if use_rs and running == status and status < 0xF0:
                    body += bytes(data)
                else:
                    body += bytes([status]) + bytes(data)
                running = status if status < 0xF0 else None
            elif kind == 'meta':
                _, _, mtype, payload, pad = ev
                body += bytes([0xFF, mtype]) + enc_vlq(len(payload), pad) + bytes(payload)
                running = None
            else:
                _, _, st, payload, pad = ev
                body += bytes([st]) + enc_vlq(len(payload), pad) + bytes(payload)
                running = None
        out += b'MTrk' + len(body).to_bytes(4, 'big') + body
    return bytes(out)
