"""Baton-passing thread scheduler with settrace pre-emption and a virtual clock (DESIGN 2.3, 2.4).

Every simulated thread is a real threading.Thread parked on its own semaphore; exactly one is
ever released, so neither the OS nor the GIL chooses who runs. Pre-emption points are

  * every `line` trace event in frames of the files under test (statement granularity), and
  * every operation on a simulated primitive (SimRLock, SimQueue, sleep, explicit yields of
    device doubles).

All choices go through `_choose`: in generation mode a policy draws them from the run's PRNG
and every switch actually taken is recorded as a decision [tid, local_step, target];
in replay mode the recorded decision is applied at that (thread, local step) and the benign
default (keep running; lowest id when forced) everywhere else.
"""
import heapq
import sys
import threading


class SimAbort(BaseException):
    """Raised inside simulated threads to unwind them at the end of a run."""


class Deadlock(Exception):
    pass


class SimThread:
    __slots__ = ('tid', 'name', 'fn', 'sem', 'state', 'steps', 'thread', 'wake_at', 'exc', 'waiting_on',
                 'prio', 'nshuffle', 'state_at_abort')

    def __init__(self, tid, name, fn):
        self.tid = tid
        self.name = name
        self.fn = fn
        self.sem = threading.Semaphore(0)
        self.state = 'new'        # new, runnable, blocked, sleeping, done
        self.steps = 0
        self.thread = None
        self.wake_at = None
        self.exc = None
        self.waiting_on = None
        self.prio = 0
        self.nshuffle = 0
        self.state_at_abort = None


class Sched:
    def __init__(self, traced_files, rng=None, policy=None, decisions=None, max_steps=20000, start_time=0.0,
                 log=None, on_idle=None):
        self.traced = tuple(traced_files)
        self.rng = rng
        self.policy = policy or {'kind': 'replay'}
        self.replay = {}
        self.shuffles = {}
        for d in decisions or []:
            if len(d) == 3 and not isinstance(d[2], list):
                self.replay[(d[0], d[1])] = d[2]
            else:
                self.shuffles[(d[0], d[1])] = d[2]
        self.recorded = []
        self.threads = []
        self.cur = None
        self.now = start_time
        self.start_time = start_time
        self.sleepers = []
        self.seq = 0
        self.total_steps = 0
        self.max_steps = max_steps
        self.aborting = False
        self.abort_reason = None
        self.main_sem = threading.Semaphore(0)
        self.log = log
        self.on_idle = on_idle
        self.switches = 0
        self.forced_switches = 0
        self.idle_advances = 0
        self.stats = {}
        self._tracer_cache = {}
        self._quantum_left = 0
        self.atomic_depth = 0
        self._pct_points = ()
        if self.policy.get('kind') == 'pct':
            self._pct_points = set(self.policy['points'])

    # ------------------------------------------------------------------ setup
    def spawn(self, name, fn):
        t = SimThread(len(self.threads), name, fn)
        self.threads.append(t)
        return t

    def _bootstrap(self, t):
        t.sem.acquire()
        try:
            if self.aborting:
                raise SimAbort()
            sys.settrace(self._global_trace)
            try:
                t.fn()
            finally:
                sys.settrace(None)
        except SimAbort:
            pass
        except BaseException as e:   # an exception escaping the thread body is recorded for the engine
            t.exc = e
        t.state = 'done'
        self._thread_finished(t)

    def run(self):
        """Run all spawned threads to completion (or abort). Called from the controlling thread."""
        if self.policy.get('kind') == 'pct':
            prios = list(self.policy['prios'])
            for t in self.threads:
                t.prio = prios[t.tid % len(prios)] if prios else 0
        for t in self.threads:
            t.state = 'runnable'
            t.thread = threading.Thread(target=self._bootstrap, args=(t,), name=f'sim-{t.name}', daemon=True)
            t.thread.start()
        first = self._choose(None, forced=True)
        if first is None:
            return
        self.cur = first
        first.sem.release()
        self.main_sem.acquire()
        for t in self.threads:
            t.thread.join(timeout=10)
            if t.thread.is_alive():
                raise RuntimeError(f'sim thread {t.name} did not terminate')

    # ------------------------------------------------------------------ tracing
    def _global_trace(self, frame, event, arg):
        fn = frame.f_code.co_filename
        hit = self._tracer_cache.get(fn)
        if hit is None:
            hit = fn.endswith(self.traced)
            self._tracer_cache[fn] = hit
        return self._local_trace if hit else None

    def _local_trace(self, frame, event, arg):
        if event == 'line' and not self.aborting and not self.atomic_depth:
            self.yield_point(frame)
        return self._local_trace

    # ------------------------------------------------------------------ scheduling
    def _candidates(self):
        c = [t for t in self.threads if t.state == 'runnable']
        return c

    def _earliest_sleeper(self):
        while self.sleepers and self.sleepers[0][2].state != 'sleeping':
            heapq.heappop(self.sleepers)
        return self.sleepers[0][2] if self.sleepers else None

    def _wake_sleeper(self, t):
        """Advance the clock to t's wake time; everything due by then becomes runnable."""
        if t.wake_at > self.now:
            self.now = t.wake_at
        while self.sleepers and (self.sleepers[0][2].state != 'sleeping' or self.sleepers[0][0] <= self.now):
            _, _, s = heapq.heappop(self.sleepers)
            if s.state == 'sleeping':
                s.state = 'runnable'
                s.wake_at = None

    def _where(self, where):
        if where is None or isinstance(where, str):
            return where
        return f'{where.f_code.co_filename.rsplit("/", 1)[-1]}:{where.f_lineno}'

    def _choose(self, cur, forced, where=None):
        """Pick the thread to run next. cur = current thread (still runnable unless forced)."""
        while True:
            cands = self._candidates()
            sleeper = self._earliest_sleeper()
            if forced and not cands:
                if sleeper is None:
                    return None
                if self.on_idle is not None:
                    self.idle_advances += 1
                    verdict = self.on_idle()
                    if verdict == 'stop':
                        self._begin_abort('quiescent')
                        return None
                self._wake_sleeper(sleeper)
                continue
            break
        key = (cur.tid, cur.steps) if cur is not None else (-1, 0)
        kind = self.policy['kind']
        target = None
        if kind == 'replay':
            tid = self.replay.get(key)
            if tid is not None:
                t = self.threads[tid] if 0 <= tid < len(self.threads) else None
                if t is not None:
                    if t.state == 'runnable':
                        target = t
                    elif t.state == 'sleeping':
                        self._wake_sleeper(t)
                        target = t
            if target is None:
                if not forced:
                    return cur
                target = cands[0]
        else:
            pool = list(cands)
            if sleeper is not None and sleeper not in pool:
                pool.append(sleeper)
            if kind == 'random':
                if not forced and (len(pool) == 1 or self.rng.random() >= self.policy['p']):
                    return cur
                others = [t for t in pool if t is not cur] or pool
                target = others[self.rng.randrange(len(others))]
            elif kind == 'rr':
                if not forced and self._quantum_left > 0:
                    self._quantum_left -= 1
                    return cur
                self._quantum_left = self.rng.randint(1, self.policy['quantum'])
                others = [t for t in pool if t is not cur] or pool
                nxt = [t for t in others if cur is not None and t.tid > cur.tid]
                target = (nxt or others)[0]
            else:  # pct
                if self.total_steps in self._pct_points and cur is not None:
                    cur.prio = min(t.prio for t in self.threads) - 1
                runn = cands or pool
                # a sleeping thread is only woken when nothing is runnable or with small probability
                if sleeper is not None and sleeper not in cands and self.rng.random() < 0.05:
                    runn = runn + [sleeper]
                target = max(runn, key=lambda t: (t.prio, -t.tid))
                if not forced and target is cur:
                    return cur
            if target.state == 'sleeping':
                self._wake_sleeper(target)
        default = cur if (not forced and cur is not None) else (cands[0] if cands else None)
        if target is not default:
            self.recorded.append([key[0], key[1], target.tid])
        return target

    def yield_point(self, where=None):
        """A pre-emption point of the current simulated thread."""
        cur = self.cur
        if self.atomic_depth:
            return
        if self.aborting:
            raise SimAbort()
        cur.steps += 1
        self.total_steps += 1
        if self.total_steps > self.max_steps:
            self._begin_abort('stepcap')
            raise SimAbort()
        nxt = self._choose(cur, forced=False, where=where)
        if nxt is not cur and nxt is not None:
            self.switches += 1
            if self.log is not None:
                self.log.ev('sw', cur.name, self._where(where), nxt.name)
            self._handoff(cur, nxt)

    def _handoff(self, cur, nxt):
        self.cur = nxt
        nxt.sem.release()
        cur.sem.acquire()
        if self.aborting:
            raise SimAbort()

    def block(self, obj, where=None):
        """Current thread cannot proceed until wake(obj)."""
        cur = self.cur
        if self.aborting:
            raise SimAbort()
        cur.state = 'blocked'
        cur.waiting_on = obj
        cur.steps += 1
        self.total_steps += 1
        nxt = self._choose(cur, forced=True, where=where)
        if nxt is None:
            if not self.aborting:
                self._begin_abort('deadlock')
            raise SimAbort()
        self.forced_switches += 1
        if self.log is not None:
            self.log.ev('blk', cur.name, self._where(where), nxt.name)
        self._handoff(cur, nxt)

    def wake(self, obj):
        for t in self.threads:
            if t.state == 'blocked' and t.waiting_on is obj:
                t.state = 'runnable'
                t.waiting_on = None

    def sleep(self, seconds, where='sleep'):
        cur = self.cur
        if self.aborting:
            raise SimAbort()
        cur.steps += 1
        self.total_steps += 1
        if self.total_steps > self.max_steps:
            self._begin_abort('stepcap')
            raise SimAbort()
        cur.state = 'sleeping'
        cur.wake_at = self.now + max(0.0, seconds)
        self.seq += 1
        heapq.heappush(self.sleepers, (cur.wake_at, self.seq, cur))
        nxt = self._choose(cur, forced=True, where=where)
        if nxt is None:
            raise SimAbort()
        if nxt is cur:
            return
        self.forced_switches += 1
        if self.log is not None:
            self.log.ev('slp', cur.name, nxt.name, round(self.now - self.start_time, 6))
        self._handoff(cur, nxt)

    def shuffle(self, lst):
        """Simulated random.shuffle: identity unless decided otherwise."""
        cur = self.cur
        key = (cur.tid, 's%d' % cur.nshuffle)
        cur.nshuffle += 1
        n = len(lst)
        if n < 2:
            return
        if self.policy['kind'] == 'replay':
            perm = self.shuffles.get(key)
        else:
            perm = None
            if self.rng.random() < 0.5:
                perm = list(range(n))
                self.rng.shuffle(perm)
                if perm == list(range(n)):
                    perm = None
                else:
                    self.recorded.append([key[0], key[1], perm])
        if perm and sorted(perm) == list(range(n)):
            items = list(lst)
            for i, j in enumerate(perm):
                lst[i] = items[j]

    # ------------------------------------------------------------------ termination
    def _begin_abort(self, reason):
        if not self.aborting:
            self.aborting = True
            self.abort_reason = reason
            for t in self.threads:
                t.state_at_abort = t.state

    def stop(self, reason='stopped'):
        """Called by a simulated thread (or on_idle) to end the run."""
        self._begin_abort(reason)
        raise SimAbort()

    def _thread_finished(self, t):
        """Runs in thread t after its body ended; hand the baton on."""
        t.steps += 1
        if not self.aborting:
            nxt = self._choose(t, forced=True) if self._live() else None
            if nxt is not None:
                self.cur = nxt
                if self.log is not None:
                    self.log.ev('end', t.name, nxt.name)
                nxt.sem.release()
                return
            if self._live() and not self.aborting:
                self._begin_abort('deadlock')
        # abort chain (or normal end): wake every remaining thread, one at a time
        for o in self.threads:
            if o.state != 'done' and o is not t:
                self.cur = o
                o.state = 'runnable'
                o.sem.release()
                return
        self.main_sem.release()

    def _live(self):
        return any(t.state != 'done' for t in self.threads)
