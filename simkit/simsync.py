"""Simulated synchronisation primitives and module shims (DESIGN 2.4).

SimRLock / SimQueue are known to the scheduler: a thread that would block leaves the runnable
set instead of blocking in the OS. Outside a running simulation (set-up and tear-down on the
controlling thread) they degrade to plain single-threaded objects.
"""
import collections
import queue as _real_queue
import threading as _real_threading


class _Ctx:
    sched = None


def set_sched(s):
    _Ctx.sched = s


def _active():
    s = _Ctx.sched
    if s is None or s.cur is None or s.cur.thread is None:
        return None
    if _real_threading.get_ident() != s.cur.thread.ident:
        return None
    return s


class SimRLock:
    def __init__(self):
        self.owner = None
        self.count = 0
        self.contended = 0
        self.reentered = 0

    def acquire(self, blocking=True, timeout=-1):
        s = _active()
        if s is None:
            self.owner = 'main'
            self.count += 1
            return True
        me = s.cur
        if not s.aborting:
            s.yield_point('lock.acquire')
        while self.owner is not None and self.owner is not me:
            if not blocking:
                return False
            self.contended += 1
            s.stats['lock_contended'] = s.stats.get('lock_contended', 0) + 1
            s.block(self, 'lock.wait')
            me = s.cur
        if self.owner is me:
            self.reentered += 1
            s.stats['lock_reentered'] = s.stats.get('lock_reentered', 0) + 1
        self.owner = me
        self.count += 1
        return True

    def release(self):
        s = _active()
        if s is None:
            self.count -= 1
            if self.count <= 0:
                self.owner = None
                self.count = 0
            return
        if self.owner is not s.cur:
            raise RuntimeError('cannot release un-acquired lock')
        self.count -= 1
        if self.count == 0:
            self.owner = None
            s.wake(self)
            if not s.aborting:
                s.yield_point('lock.release')

    __enter__ = acquire

    def __exit__(self, *exc):
        self.release()
        return False


class SimLock(SimRLock):
    """Non-reentrant variant (used by mutants / custom doubles)."""
    def acquire(self, blocking=True, timeout=-1):
        s = _active()
        if s is not None and self.owner is s.cur:
            s.block(self, 'lock.selfdeadlock')
        return SimRLock.acquire(self, blocking, timeout)


class _Waiter:
    """What a thread parked in SimCondition.wait() is blocked on."""
    def __init__(self, cond):
        self.cond = cond


class SimCondition:
    """threading.Condition on the simulated scheduler: wait() releases the lock and parks the thread,
    notify(n) releases exactly n parked threads (in the order they arrived), nothing more."""
    def __init__(self, lock=None):
        self._lock = lock if lock is not None else SimRLock()
        self._waiters = []
        self._notified = set()

    def acquire(self, *a, **kw):
        return self._lock.acquire(*a, **kw)

    def release(self):
        self._lock.release()

    def __enter__(self):
        return self._lock.acquire()

    def __exit__(self, *exc):
        self._lock.release()
        return False

    def wait(self, timeout=None):
        s = _active()
        if s is None:
            raise RuntimeError('wait() outside a running simulation would block forever')
        w = _Waiter(self)
        self._waiters.append(w)
        self._lock.release()
        ok = True
        try:
            if timeout is None:
                while id(w) not in self._notified:
                    s.block(w, 'cond.wait')
            elif id(w) not in self._notified:
                s.sleep(timeout, 'cond.timedwait')
                ok = id(w) in self._notified
        finally:
            self._notified.discard(id(w))
            if w in self._waiters:
                self._waiters.remove(w)
            self._lock.acquire()
        return ok

    def wait_for(self, predicate, timeout=None):
        r = predicate()
        while not r:
            if not self.wait(timeout) and timeout is not None:
                return predicate()
            r = predicate()
        return r

    def notify(self, n=1):
        s = _active()
        for _ in range(n):
            if not self._waiters:
                return
            w = self._waiters.pop(0)
            self._notified.add(id(w))
            if s is not None:
                s.wake(w)

    def notify_all(self):
        self.notify(len(self._waiters))

    notifyAll = notify_all


class SimQueue:
    """queue.Queue re-stated on the simulated primitives (same structure as CPython's: one mutex, the
    conditions not_empty / not_full / all_tasks_done, the deque `queue`, `unfinished_tasks`), so that code which
    reaches into those documented-by-source members meets the same semantics, lost wake-ups included."""
    def __init__(self, maxsize=0):
        self.maxsize = maxsize
        self.queue = collections.deque()
        self.mutex = SimLock()
        self.not_empty = SimCondition(self.mutex)
        self.not_full = SimCondition(self.mutex)
        self.all_tasks_done = SimCondition(self.mutex)
        self.unfinished_tasks = 0

    @property
    def items(self):
        return self.queue

    def put(self, item, block=True, timeout=None):
        with self.not_full:
            if self.maxsize > 0:
                if not block:
                    if len(self.queue) >= self.maxsize:
                        raise _real_queue.Full()
                else:
                    while len(self.queue) >= self.maxsize:
                        if _active() is None:
                            raise _real_queue.Full()
                        self.not_full.wait()
            self.queue.append(item)
            self.unfinished_tasks += 1
            self.not_empty.notify()

    def put_nowait(self, item):
        return self.put(item, block=False)

    def get(self, block=True, timeout=None):
        with self.not_empty:
            if not block or _active() is None:
                if not self.queue:
                    raise _real_queue.Empty()
            elif timeout is None:
                while not self.queue:
                    self.not_empty.wait()
            else:
                if not self.queue:
                    self.not_empty.wait(timeout)
                if not self.queue:
                    raise _real_queue.Empty()
            item = self.queue.popleft()
            self.not_full.notify()
            return item

    def get_nowait(self):
        return self.get(block=False)

    def qsize(self):
        with self.mutex:
            return len(self.queue)

    def empty(self):
        with self.mutex:
            return not self.queue

    def full(self):
        with self.mutex:
            return 0 < self.maxsize <= len(self.queue)

    def task_done(self):
        with self.all_tasks_done:
            unfinished = self.unfinished_tasks - 1
            if unfinished <= 0:
                if unfinished < 0:
                    raise ValueError('task_done() called too many times')
                self.all_tasks_done.notify_all()
            self.unfinished_tasks = unfinished

    def join(self):
        with self.all_tasks_done:
            while self.unfinished_tasks:
                self.all_tasks_done.wait()


class ThreadingShim:
    """Stands in for the `threading` module inside mido.ports."""
    def __init__(self):
        self.locks = []

    def RLock(self):
        lk = SimRLock()
        self.locks.append(lk)
        return lk

    def Lock(self):
        lk = SimLock()
        self.locks.append(lk)
        return lk

    def Condition(self, lock=None):
        return SimCondition(lock)

    def Event(self):
        return SimEvent()

    def __getattr__(self, name):
        return getattr(_real_threading, name)


class SimEvent:
    def __init__(self):
        self._cond = SimCondition(SimLock())
        self._flag = False

    def is_set(self):
        return self._flag

    def set(self):
        with self._cond:
            self._flag = True
            self._cond.notify_all()

    def clear(self):
        with self._cond:
            self._flag = False

    def wait(self, timeout=None):
        with self._cond:
            if not self._flag:
                self._cond.wait(timeout)
            return self._flag


class QueueShim:
    Empty = _real_queue.Empty
    Full = _real_queue.Full
    Queue = SimQueue


class TimeShim:
    """Stands in for the `time` module: sleep and clocks read the scheduler's virtual clock."""
    def __init__(self, sched):
        self.sched = sched
        self.sleep_calls = 0

    def sleep(self, seconds):
        self.sleep_calls += 1
        s = _active()
        if s is None:
            self.sched.now += max(0.0, seconds)
            return
        s.sleep(seconds)

    def time(self):
        return self.sched.now

    monotonic = time
    perf_counter = time


class RandomShim:
    def __init__(self, sched):
        self.sched = sched

    def shuffle(self, lst):
        s = _active()
        if s is None:
            return
        s.shuffle(lst)
