"""Simulated synchronisation primitives and module shims (DESIGN 2.4).

SimRLock / SimQueue are known to the scheduler: a thread that would block leaves the runnable
set instead of blocking in the OS. Outside a running simulation (set-up and tear-down on the
controlling thread) they degrade to plain single-threaded objects.
"""
import collections
import queue as _real_queue
import threading as _real_threading


class _Ctx:
    sched = None


def set_sched(s):
    _Ctx.sched = s


def _active():
    s = _Ctx.sched
    if s is None or s.cur is None or s.cur.thread is None:
        return None
    if _real_threading.get_ident() != s.cur.thread.ident:
        return None
    return s


class SimRLock:
    def __init__(self):
        self.owner = None
        self.count = 0
        self.contended = 0
        self.reentered = 0

    def acquire(self, blocking=True, timeout=-1):
        s = _active()
        if s is None:
            self.owner = 'main'
            self.count += 1
            return True
        me = s.cur
        if not s.aborting:
            s.yield_point('lock.acquire')
        while self.owner is not None and self.owner is not me:
            if not blocking:
                return False
            self.contended += 1
            s.stats['lock_contended'] = s.stats.get('lock_contended', 0) + 1
            s.block(self, 'lock.wait')
            me = s.cur
        if self.owner is me:
            self.reentered += 1
            s.stats['lock_reentered'] = s.stats.get('lock_reentered', 0) + 1
        self.owner = me
        self.count += 1
        return True

    def release(self):
        s = _active()
        if s is None:
            self.count -= 1
            if self.count <= 0:
                self.owner = None
                self.count = 0
            return
        if self.owner is not s.cur:
            raise RuntimeError('cannot release un-acquired lock')
        self.count -= 1
        if self.count == 0:
            self.owner = None
            s.wake(self)
            if not s.aborting:
                s.yield_point('lock.release')

    __enter__ = acquire

    def __exit__(self, *exc):
        self.release()
        return False


class SimLock(SimRLock):
    """Non-reentrant variant (used by mutants / custom doubles)."""
    def acquire(self, blocking=True, timeout=-1):
        s = _active()
        if s is not None and self.owner is s.cur:
            s.block(self, 'lock.selfdeadlock')
        return SimRLock.acquire(self, blocking, timeout)


class SimQueue:
    def __init__(self, maxsize=0):
        self.items = collections.deque()

    def put(self, item, block=True, timeout=None):
        s = _active()
        if s is not None and not s.aborting:
            s.yield_point('queue.put')
        self.items.append(item)
        if s is not None:
            s.wake(self)

    put_nowait = put

    def get(self, block=True, timeout=None):
        s = _active()
        if s is not None and not s.aborting:
            s.yield_point('queue.get')
        while not self.items:
            if not block or s is None:
                raise _real_queue.Empty()
            s.block(self, 'queue.wait')
        return self.items.popleft()

    def get_nowait(self):
        return self.get(block=False)

    def qsize(self):
        return len(self.items)

    def empty(self):
        return not self.items


class ThreadingShim:
    """Stands in for the `threading` module inside mido.ports."""
    def __init__(self):
        self.locks = []

    def RLock(self):
        lk = SimRLock()
        self.locks.append(lk)
        return lk

    def Lock(self):
        lk = SimLock()
        self.locks.append(lk)
        return lk

    def __getattr__(self, name):
        return getattr(_real_threading, name)


class QueueShim:
    Empty = _real_queue.Empty
    Full = _real_queue.Full
    Queue = SimQueue


class TimeShim:
    """Stands in for the `time` module: sleep and clocks read the scheduler's virtual clock."""
    def __init__(self, sched):
        self.sched = sched
        self.sleep_calls = 0

    def sleep(self, seconds):
        self.sleep_calls += 1
        s = _active()
        if s is None:
            self.sched.now += max(0.0, seconds)
            return
        s.sleep(seconds)

    def time(self):
        return self.sched.now

    monotonic = time
    perf_counter = time


class RandomShim:
    def __init__(self, sched):
        self.sched = sched

    def shuffle(self, lst):
        s = _active()
        if s is None:
            return
        s.shuffle(lst)
