"""In-process TCP-like network for mido.sockets (DESIGN 2.5).

A connection is two one-directional byte pipes. Bytes written are *in flight* until a
scheduled delivery event (on the virtual clock) moves them into the reader's buffer: order is
preserved, nothing is lost or duplicated - what TCP gives an application. Faults: FIN after
exactly c bytes, RST (pending bytes discarded), stalls (late deliveries), EPIPE, connection
refused, data in flight before accept.

SimSocket follows CPython's contract that socket.close() only marks the socket closed while
file objects from makefile() are still open (the _io_refs rule); the connection is released
when the last of them is closed.
"""
import io
import heapq

from .sched import SimAbort


class Pipe:
    """Bytes flowing to one endpoint."""
    __slots__ = ('inflight', 'buf', 'fin_sent', 'eof', 'rst', 'delivered', 'written', 'rst_pending')

    def __init__(self):
        self.inflight = bytearray()
        self.buf = bytearray()
        self.fin_sent = False    # writer has closed; EOF follows the in-flight bytes
        self.eof = False         # EOF is visible to the reader (after buf is drained)
        self.rst = False
        self.rst_pending = False  # a reset arrived behind data that was already delivered (readable first: Linux)
        self.delivered = 0
        self.written = 0


class SimNet:
    def __init__(self, clock, log=None, auto_latency=None, first_fd=10):
        self.clock = clock            # object with .now
        self.log = log
        self.events = []              # heap of (time, seq, fn)
        self.seq = 0
        self.listeners = {}
        self.all_sockets = []
        self.fds = {}
        self.next_fd = first_fd       # 0 for a process that closed its standard streams before opening sockets
        self.next_port = 40000
        self.auto_latency = auto_latency   # None: explicit deliveries only; number: every write is delivered after it
        self.stats = {}
        self._pumping = False

    def at(self, t, fn):
        self.seq += 1
        heapq.heappush(self.events, (t, self.seq, fn))

    def pump(self):
        """Apply every network event that is due at the current virtual time."""
        if self._pumping:
            return
        self._pumping = True
        try:
            now = self.clock.now
            while self.events and self.events[0][0] <= now:
                _, _, fn = heapq.heappop(self.events)
                fn()
        finally:
            self._pumping = False

    def next_event_time(self):
        return self.events[0][0] if self.events else None

    def count(self, k):
        self.stats[k] = self.stats.get(k, 0) + 1

    # -- delivery primitives, used by scheduled events
    def deliver(self, pipe, n=None):
        if pipe.rst:
            return
        k = len(pipe.inflight) if n is None else min(n, len(pipe.inflight))
        if k:
            pipe.buf += pipe.inflight[:k]
            del pipe.inflight[:k]
            pipe.delivered += k
        if pipe.fin_sent and not pipe.inflight:
            pipe.eof = True

    def reset(self, pipe, keep_delivered=False):
        """Connection reset. Bytes still in flight are gone. What had already been delivered is either discarded
        too (BSD) or stays readable, the error showing once it has been read (Linux): keep_delivered."""
        del pipe.inflight[:]
        if keep_delivered and pipe.buf:
            pipe.rst_pending = True
            return
        pipe.rst = True
        del pipe.buf[:]

    # -- socket module surface
    def socket(self, family=None, type=None, proto=0):
        return SimSocket(self)


class SimFile:
    def __init__(self, sock, mode):
        self.sock = sock
        self.mode = mode
        self.closed = False

    def read(self, n=-1):
        s = self.sock
        s.net.pump()
        rx = s.rx
        if self.closed or rx is None:
            raise ValueError('I/O operation on closed file')
        if rx.rst:
            raise ConnectionResetError(104, 'Connection reset by peer')
        if rx.buf:
            k = len(rx.buf) if n is None or n < 0 else min(n, len(rx.buf))
            data = bytes(rx.buf[:k])
            del rx.buf[:k]
            return data
        if rx.rst_pending:
            rx.rst = True
            raise ConnectionResetError(104, 'Connection reset by peer')
        if rx.eof:
            return b''
        # a blocking read with nothing to read: in a single-threaded history this is a hang
        s.net.count('read_would_block')
        raise SimAbort()

    def write(self, data):
        s = self.sock
        s.net.pump()
        if self.closed or s.tx is None:
            raise ValueError('I/O operation on closed file')
        tx = s.tx
        peer = s.peer
        if tx.rst or (s.rx is not None and (s.rx.rst or s.rx.rst_pending)):
            raise ConnectionResetError(104, 'Connection reset by peer')
        if tx.fin_sent:
            raise BrokenPipeError(32, 'Broken pipe')        # our sending direction was shut down
        if peer is not None and peer.really_closed:
            # TCP: the first write after the peer went away is accepted and answered with RST,
            # the next one fails with EPIPE
            if s.writes_after_peer_close >= s.net_epipe_after:
                raise BrokenPipeError(32, 'Broken pipe')
            s.writes_after_peer_close += 1
            return len(data)
        tx.inflight += bytes(data)
        tx.written += len(data)
        if s.net.auto_latency is not None:
            s.net.at(s.net.clock.now + s.net.auto_latency, lambda p=tx: s.net.deliver(p))
        return len(data)

    def flush(self):
        pass

    def close(self):
        if not self.closed:
            self.closed = True
            self.sock._io_refs -= 1
            self.sock._maybe_really_close()

    def fileno(self):
        return self.sock.fileno()


class _SimRaw(io.RawIOBase):
    """Raw-stream face of a SimFile for io.BufferedReader / io.BufferedWriter."""
    def __init__(self, f, mode):
        self._f = f
        self._mode = mode

    def readable(self):
        return 'r' in self._mode

    def writable(self):
        return 'w' in self._mode

    def readinto(self, b):
        data = self._f.read(len(b))
        b[:len(data)] = data
        return len(data)

    def write(self, b):
        return self._f.write(bytes(b))

    def fileno(self):
        return self._f.fileno()

    def close(self):
        if not self.closed:
            try:
                self._f.close()
            finally:
                super().close()

    def __del__(self):
        pass        # no implicit close from the collector: closing is an event of the simulated history


class SimSocket:
    def __init__(self, net):
        self.net = net
        self.fd = net.next_fd
        net.next_fd += 1
        net.fds[self.fd] = self
        self.rx = None
        self.tx = None
        self.peer = None
        self.listening = False
        self.accept_queue = []
        self.bound = None
        self.peer_addr = None
        self._closed = False
        self._io_refs = 0
        self.really_closed = False
        self.writes_after_peer_close = 0
        self.close_calls = 0
        net.all_sockets.append(self)
        self.net_epipe_after = 1
        self.close_latency = 0.0

    # -- options
    def setsockopt(self, *a):
        pass

    def setblocking(self, flag):
        pass

    def settimeout(self, t):
        pass

    def fileno(self):
        # like the real thing: the descriptor stays valid until the last makefile() object is closed
        return -1 if self.really_closed else self.fd

    # -- server side
    def bind(self, addr):
        self.bound = tuple(addr)

    def listen(self, backlog=1):
        self.listening = True
        self.net.listeners[self.bound] = self

    def accept(self):
        self.net.pump()
        if not self.accept_queue:
            self.net.count('accept_would_block')
            raise SimAbort()
        conn = self.accept_queue.pop(0)
        return conn, conn.peer_addr

    # -- client side
    def connect(self, addr):
        self.net.pump()
        lst = self.net.listeners.get(tuple(addr))
        if lst is None or lst._closed or not lst.listening:
            self.net.count('connection_refused')
            raise ConnectionRefusedError(111, 'Connection refused')
        srv = SimSocket(self.net)
        a, b = Pipe(), Pipe()
        self.rx, self.tx = a, b
        srv.rx, srv.tx = b, a
        self.peer, srv.peer = srv, self
        port = self.net.next_port
        self.net.next_port += 1
        srv.peer_addr = ('127.0.0.1', port)
        self.peer_addr = tuple(addr)
        lst.accept_queue.append(srv)

    def shutdown(self, how):
        """Like the real call: fails with ENOTCONN once the connection was reset (or never existed), otherwise
        ends the chosen direction(s) without releasing the descriptor."""
        self.net.pump()
        if self.really_closed or self.tx is None:
            raise OSError(9 if self.really_closed else 107, 'Bad file descriptor' if self.really_closed
                          else 'Transport endpoint is not connected')
        if (self.rx is not None and (self.rx.rst or self.rx.rst_pending)) or self.tx.rst:
            raise OSError(107, 'Transport endpoint is not connected')
        if how in (1, 2) and not self.tx.fin_sent:
            tx = self.tx
            tx.fin_sent = True
            net = self.net
            net.at(net.clock.now + self.close_latency, lambda: net.deliver(tx))
        self.net.count('shutdown')

    def makefile(self, mode='r', buffering=None, **kw):
        self._io_refs += 1
        f = SimFile(self, mode)
        if buffering == 0:
            return f
        # like socket.makefile(): anything but buffering=0 wraps the raw stream in the real io buffering classes
        size = buffering if buffering and buffering > 0 else io.DEFAULT_BUFFER_SIZE
        raw = _SimRaw(f, mode)
        self.net.count('buffered_makefile')
        return io.BufferedWriter(raw, size) if 'w' in mode else io.BufferedReader(raw, size)

    def readable(self):
        self.net.pump()
        if self.listening:
            return bool(self.accept_queue)
        rx = self.rx
        if rx is None:
            return False
        return bool(rx.buf) or rx.eof or rx.rst or rx.rst_pending

    def close(self):
        self.close_calls += 1
        self._closed = True
        self._maybe_really_close()

    def _maybe_really_close(self):
        if self._closed and self._io_refs <= 0 and not self.really_closed:
            self.really_closed = True
            self.net.fds.pop(self.fd, None)
            if self.listening:
                self.net.listeners.pop(self.bound, None)
                return
            tx = self.tx
            if tx is not None:
                tx.fin_sent = True
                net = self.net
                net.at(net.clock.now + self.close_latency, lambda: net.deliver(tx))


class SocketShim:
    """Stands in for the `socket` module inside mido.sockets."""
    AF_INET = 2
    SOCK_STREAM = 1
    SOL_SOCKET = 1
    SO_REUSEADDR = 2
    SHUT_RD = 0
    SHUT_WR = 1
    SHUT_RDWR = 2
    error = OSError
    timeout = TimeoutError

    def __init__(self, net):
        self.net = net

    def socket(self, *a, **kw):
        return SimSocket(self.net)


class SelectShim:
    def __init__(self, net):
        self.net = net
        self.calls = 0

    def select(self, rlist, wlist, xlist, timeout=None):
        self.calls += 1
        out = []
        for fd in rlist:
            if not isinstance(fd, int):
                fd = fd.fileno()
            if fd < 0:
                raise ValueError('file descriptor cannot be a negative integer (-1)')
            s = self.net.fds.get(fd)
            if s is not None and s.readable():
                out.append(fd)
        if not out and timeout is None and rlist:
            # a select() without timeout blocks until something is readable
            self.blocked_forever(rlist)
            return self.select(rlist, wlist, xlist, timeout)
        return out, [], []

    def blocked_forever(self, rlist):
        """Default (single-threaded history): jump to the next network event, or report a hang."""
        nxt = self.net.next_event_time()
        if nxt is None:
            self.net.count('select_would_block_forever')
            raise SimAbort()
        self.net.clock.now = max(self.net.clock.now, nxt)
        self.net.pump()
