"""Engine `history` - edit/observe histories against the hidden state of a MidiFile (DESIGN 3: C16).

One object A receives a generated history of documented edits interleaved with observations
(iterate, length, merged_track, play on a virtual clock - complete or abandoned -, save to
simulated storage, sometimes with an injected write error or unstorable content). After every
observation the same observation is made on a FRESH MidiFile built from an independent plain-list
content model; a twin B receives only the edits and is observed at the end.
"""
import collections

from simkit import bootstrap
from simkit import simtime
from simkit.choice import rng_for, Log, pick, weighted
from simkit import simdisk
from simkit.shrink import shrink_list_at, replace_at
from . import BaseEngine, Violation

mido = bootstrap()
import mido.midifiles.midifiles as mfmod  # noqa: E402
from mido import MidiFile, MidiTrack, MetaMessage, Message  # noqa: E402

OBS = ('iter', 'length', 'merged', 'merged_mutate', 'play', 'play_abandon', 'save', 'save_fault', 'save_named',
       'save_noargs')
EDITS = ('add_track', 'tracks_append', 'tracks_insert', 'tracks_pop', 'tracks_set', 'tracks_replace',
         'track_append', 'track_insert', 'track_extend', 'track_pop', 'track_sort', 'track_set',
         'msg_time', 'msg_note', 'tempo_set', 'track_name', 'set_type', 'set_tpb', 'track_slice_del', 'track_iadd',
         'track_clear', 'bad_assign', 'export', 'bad_track_name', 'slice_copy', 'text_set')


def mk(spec):
    k = spec[0]
    if k == 'note':
        return Message('note_on', note=spec[1] % 128, time=spec[2])
    if k == 'tempo':
        return MetaMessage('set_tempo', tempo=spec[1], time=spec[2])
    if k == 'text':
        return MetaMessage('text', text=(f't{spec[1]}' if spec[1] % 4 else f'\xe9{spec[1]}'), time=spec[2])
    if k == 'eot':
        return MetaMessage('end_of_track', time=spec[2])
    if k == 'clock':
        return Message('clock', time=spec[2])
    if k == 'seqspec':
        # payload handed over as a plain list, the way an application that builds it step by step would
        return MetaMessage('sequencer_specific', data=[spec[1] % 256, 1, 2][:1 + spec[1] % 3], time=spec[2])
    if k == 'sysex':
        return Message('sysex', data=[spec[1] % 128, 3], time=spec[2])
    raise ValueError(k)


def dc(m):
    """A copy that shares nothing mutable with the original (message copies share a list-valued payload)."""
    c = m.copy()
    if isinstance(vars(c).get('data'), list):
        vars(c)['data'] = list(vars(c)['data'])
    return c


def gen_msg(rng):
    t = pick(rng, (0, 0, 1, 10, 96, 480, 1000))
    if rng.random() < 0.02:
        t = pick(rng, (1 << 28, (1 << 28) + 5, (1 << 28) - 1))      # at and beyond the largest storable delta
    if rng.random() < 0.04:
        t = float(t)        # a float that equals an integer (makes save raise until it is repaired)
    r = rng.random()
    if r < 0.04:
        return ['seqspec', rng.randrange(256), t]
    if r < 0.08:
        return ['sysex', rng.randrange(128), t]
    if r < 0.6:
        return ['note', rng.randrange(128), t]
    if r < 0.8:
        return ['tempo', pick(rng, (0, 1, 250000, 500000, 1000000, 16777215)), t]
    if r < 0.9:
        return ['text', rng.randrange(50), t]
    if r < 0.97:
        return ['eot', 0, t]
    return ['clock', 0, t]      # makes save raise


def expected_events(track):
    """What an SMF track chunk must contain for this model track (independent encoding of the five message
    kinds the histories use; end_of_track messages folded into one trailing event)."""
    out = []
    accum = 0
    for m in track:
        if m.type == 'end_of_track':
            accum += m.time
            continue
        d = m.time + accum
        accum = 0
        if m.type == 'note_on':
            out.append((d, 'midi', 0x90 | m.channel, bytes([m.note, m.velocity])))
        elif m.type == 'set_tempo':
            out.append((d, 'meta', 0x51, m.tempo.to_bytes(3, 'big')))
        elif m.type == 'text':
            try:
                out.append((d, 'meta', 0x01, m.text.encode('latin1')))
            except UnicodeEncodeError:
                return None
        elif m.type == 'track_name':
            out.append((d, 'meta', 0x03, m.name.encode('latin1')))
        elif m.type == 'sequencer_specific':
            out.append((d, 'meta', 0x7F, bytes(m.data)))
        elif m.type == 'sysex':
            out.append((d, 'sysex', 0xF0, bytes(m.data) + b'\xf7'))
        else:
            return None
    out.append((accum, 'meta', 0x2F, b''))
    return out


class Clock:
    def __init__(self):
        self.t = 1000.0
        self.slept = []

    def now(self):
        return self.t

    def sleep(self, d):
        self.slept.append(d)
        if d > 0:
            self.t += d

    def time(self):
        return self.t


class History(BaseEngine):
    name = 'history'

    def tiers(self, prop):
        return {'quick': 60_000, 'thorough': 3_000_000}

    # ---------------------------------------------------------- generation
    def gen(self, prop, seed, idx, tier):
        rng = rng_for(prop, seed, idx, 'plan')
        init = weighted(rng, (('empty', 2), ('tracks', 4), ('loaded', 2)))
        tracks = [[gen_msg(rng) for _ in range(rng.randint(0, 5))] for _ in range(rng.randint(0, 3))] \
            if init != 'empty' else []
        ops = []
        p_obs = pick(rng, (0.2, 0.4, 0.6))
        for _ in range(rng.randint(2, 16)):
            if rng.random() < p_obs:
                o = weighted(rng, (('iter', 3), ('iter_edit', 1.5), ('length', 3), ('merged', 2), ('merged_mutate', 1), ('play', 1.5),
                                   ('play_abandon', 1), ('play_start', 1), ('iter_start', 0.7), ('resume', 1.5),
                                   ('save_named', 0.7), ('save_noargs', 0.5),
                                   ('save', 1.5), ('save_fault', 0.7)))
                ops.append(['obs', o, rng.randrange(6)])
            else:
                e = weighted(rng, (('add_track', 2), ('tracks_append', 1), ('tracks_insert', 1), ('tracks_pop', 1),
                                   ('tracks_set', 0.7), ('tracks_replace', 0.7), ('track_append', 3),
                                   ('track_insert', 2), ('track_extend', 1), ('track_pop', 1.5), ('track_sort', 0.5),
                                   ('track_set', 1), ('msg_time', 2.5), ('msg_note', 1), ('tempo_set', 1.5),
                                   ('track_name', 0.7), ('set_type', 0.7), ('set_tpb', 1), ('track_slice_del', 0.7),
                                   ('track_iadd', 0.7), ('track_clear', 0.4), ('bad_assign', 1.2), ('export', 1.0),
                                   ('bad_track_name', 0.5), ('slice_copy', 0.8), ('text_set', 1.0)))
                ops.append(['edit', e, rng.randrange(1000), rng.randrange(1000),
                            [gen_msg(rng) for _ in range(rng.randint(1, 3))],
                            pick(rng, (0, 1, 10, 480, 1000, 96)), pick(rng, (0, 1, 2, 1, 1))])
        plan = {'prop': prop, 'init': init, 'type': pick(rng, (0, 1, 1, 1, 2)), 'tpb': pick(rng, (1, 96, 480)),
                'tracks': tracks, 'ops': ops, 'hold_tracks': rng.random() < 0.3}
        if idx % 400 == 5:
            # a big file: thousands of messages, observed, edited in place (same tracks, same lengths), observed
            plan.update({'init': 'tracks', 'type': 1, 'bulk': rng.randint(4100, 5000)})
            plan['tracks'] = [[['tempo', 500000, 0]], [['tempo', 250000, 10]]]
            e = pick(rng, ('tempo_set', 'msg_note', 'msg_time', 'tempo_set'))
            plan['ops'] = [['obs', pick(rng, ('length', 'iter')), 1],
                           ['edit', e, rng.randrange(2), rng.randrange(1000), [gen_msg(rng)], pick(rng, (1, 7, 96)), 1],
                           ['obs', pick(rng, ('length', 'iter', 'merged')), 1]]
        return plan

    # ---------------------------------------------------------- execution
    def abort_cleanup(self):
        saved = getattr(self, '_saved', None)
        if saved is not None:
            mfmod.time = saved
            self._saved = None
        mfmod.__dict__.pop('open', None)

    def run(self, prop, plan, keep_log=False):
        _vc = simtime.VClock(5000.0)
        simtime.activate(_vc.read, _vc.sleep)
        try:
            return self._run_inner(prop, plan, keep_log)
        finally:
            simtime.deactivate()

    def _run_inner(self, prop, plan, keep_log=False):
        log = Log(keep_log)
        stats = collections.Counter()
        cov = set()
        viol = None
        self._saved = mfmod.time
        try:
            try:
                self._simulate(plan, log, stats, cov)
            except Violation as v:
                viol = {'sig': v.sig, 'msg': v.msg}
                log.ev('VIOLATION', v.sig)
        finally:
            self.abort_cleanup()
        nontrivial = stats.pop('_nontrivial', 0) > 0
        return {'viol': viol, 'digest': log.digest(), 'nontrivial': nontrivial, 'stats': stats, 'cov': cov,
                'events': log.events, 'sim_s': 0.0}

    def _make(self, plan):
        """The object under test, built the way the plan says."""
        tracks = [MidiTrack(mk(s) for s in tr) for tr in plan['tracks']]
        if plan.get('bulk') and tracks:
            tracks[0].extend(Message('note_on', note=k % 128, time=k % 3) for k in range(plan['bulk']))
        if plan['init'] == 'loaded':
            src = MidiFile(type=1, ticks_per_beat=plan['tpb'], tracks=[MidiTrack(
                m.copy(time=int(m.time)) for m in t if not (not m.is_meta and m.type == 'clock')) for t in tracks])
            disk = simdisk.SimDisk()
            try:
                src.save(file=disk.handle('src.mid', 'wb'))
                a = MidiFile(file=disk.handle('src.mid', 'rb'))
            except Exception as e:
                raise Violation(f'loaded-init-raised:{type(e).__name__}',
                                f'saving plain storable content and loading it back (to start the history from a '
                                f'loaded file) raised {e!r}')
            return a
        if plan['init'] == 'empty':
            return MidiFile(type=plan['type'], ticks_per_beat=plan['tpb'])
        return MidiFile(type=plan['type'], ticks_per_beat=plan['tpb'], tracks=tracks)

    def _fresh(self, model):
        return MidiFile(type=model['type'], ticks_per_beat=model['tpb'],
                        tracks=[MidiTrack(dc(m) for m in t) for t in model['tracks']])

    def _observe(self, mf, kind, arg):
        """Perform one observation; the result is a plain comparable value."""
        try:
            if kind == 'iter':
                return ('ok', [repr(m) for m in mf])
            if kind == 'iter_edit':
                # a lazy consumer that edits each message it is handed (they are its own copies) before asking for
                # the next one: what it is handed must be what a consumer that edits nothing is handed
                out = []
                for m in mf:
                    out.append(repr(m))
                    if m.type == 'set_tempo':
                        m.tempo = 1 + arg
                    elif m.type == 'note_on':
                        m.note = (m.note + 1) % 128
                    m.time = 99.5
                return ('ok', out)
            if kind == 'length':
                return ('ok', repr(mf.length))
            if kind == 'merged':
                return ('ok', [repr(m) for m in mf.merged_track])
            if kind == 'merged_mutate':
                # what the caller does with the returned track is the caller's business: it must not
                # leak into later observations
                mt = mf.merged_track
                out = [repr(m) for m in mt]
                for m in mt:
                    m.time = 7777       # every message of the returned track, the final end_of_track included
                mt.append(Message('note_on', note=arg, time=arg))
                if len(mt) > 2:
                    del mt[0]
                return ('ok', out)
            if kind in ('play', 'play_abandon'):
                clock = Clock()
                mfmod.time = clock
                out = []
                gen = mf.play(meta_messages=bool(arg % 2), now=clock.now)
                for m in gen:
                    out.append(repr(m))
                    if kind == 'play_abandon' and len(out) > arg:
                        gen.close()
                        break
                return ('ok', out, repr(clock.t), [repr(d) for d in clock.slept])
            if kind in ('save_named', 'save_noargs'):
                # saving by name goes through the module's open(); saving without any argument must be refused
                disk = simdisk.SimDisk()
                mfmod.__dict__['open'] = disk.open
                try:
                    if kind == 'save_named':
                        mf.save(filename=f'song{arg}.mid')
                    else:
                        mf.save()
                finally:
                    mfmod.__dict__.pop('open', None)
                return ('ok', sorted((n, bytes(b).hex()) for n, b in disk.files.items()))
            if kind in ('save', 'save_fault'):
                disk = simdisk.SimDisk()
                fault = {'fail_write_at': (arg, arg % 2, simdisk.ENOSPC)} if kind == 'save_fault' else None
                mf.save(file=disk.handle('o.mid', 'wb', fault))
                return ('ok', bytes(disk.files['o.mid']).hex())
        except Exception as e:
            return ('raised', type(e).__name__)
        finally:
            mfmod.time = self._saved
        raise ValueError(kind)

    def _tl(self, target):
        """The tracks list the application edits through: the attribute read afresh, or (plan['hold_tracks']) a
        reference to it taken once and kept."""
        if not self._hold_tracks:
            return target.tracks
        ref = self._tracks_ref.get(id(target))
        if ref is None:
            ref = self._tracks_ref[id(target)] = target.tracks
        return ref

    def _apply(self, target, model, op, stats):
        """Apply one documented edit to `target` (a MidiFile) and, when model is given, to the plain
        model with list semantics written out here."""
        _, e, a, b, specs, val, small = op

        def both(fn_t, fn_m):
            fn_t(target)
            if model is not None:
                fn_m(model)
        tl = self._tl(target)
        nt = len(tl)
        held = self._held.setdefault(id(target), {})

        def new_track(msgs, ti_hint):
            # the caller creates the track object (sometimes a plain list), adds it and keeps its own reference
            obj = [dc(m) for m in msgs] if (a + b) % 4 == 0 else MidiTrack(dc(m) for m in msgs)
            return obj
        if e == 'add_track':
            name = None if a % 2 else f'n{a % 7}'
            target.add_track(name)
            if model is not None:
                tr = []
                if name is not None:
                    tr.append(MetaMessage('track_name', name=name, time=0))
                model['tracks'].append(tr)
        elif e == 'tracks_append':
            new = [mk(s) for s in specs]
            obj = new_track(new, nt)
            tl.append(obj)
            held[len(tl) - 1] = obj
            if model is not None:
                model['tracks'].append([dc(m) for m in new])
        elif e == 'tracks_insert':
            held.clear()
            i = a % (nt + 1)
            new = [mk(s) for s in specs]
            tl.insert(i, MidiTrack(dc(m) for m in new))
            if model is not None:
                model['tracks'].insert(i, [dc(m) for m in new])
        elif e == 'tracks_pop':
            held.clear()
            if nt:
                i = a % nt
                if a % 2:
                    tl.pop(i)
                else:
                    del tl[i]
                if model is not None:
                    model['tracks'].pop(i)
        elif e == 'tracks_set':
            held.clear()
            if nt:
                i = a % nt
                new = [mk(s) for s in specs]
                tl[i] = MidiTrack(dc(m) for m in new)
                if model is not None:
                    model['tracks'][i] = [dc(m) for m in new]
        elif e == 'tracks_replace':
            held.clear()
            keep = [t for j, t in enumerate(tl) if (a >> j) & 1]
            target.tracks = list(keep)
            self._tracks_ref.pop(id(target), None)      # the application takes the new list from the file
            if model is not None:
                model['tracks'] = [t for j, t in enumerate(model['tracks']) if (a >> j) & 1]
        elif e in ('track_append', 'track_insert', 'track_extend', 'track_pop', 'track_sort', 'track_set',
                   'msg_time', 'msg_note', 'tempo_set', 'track_name', 'track_slice_del', 'track_iadd', 'track_clear',
                   'bad_assign', 'export', 'bad_track_name', 'slice_copy', 'text_set'):
            if not nt:
                return
            ti = a % nt
            tr = tl[ti]
            h = held.get(ti)
            if h is not None and len(h) == len(tr) and all(x is y or x == y for x, y in zip(h, tr)):
                tr = h      # edit through the reference the caller kept when it added this track
            mtr = model['tracks'][ti] if model is not None else None
            n = len(tr)
            new = [mk(s) for s in specs]
            if e == 'track_append':
                tr.append(dc(new[0]))
                if mtr is not None:
                    mtr.append(dc(new[0]))
            elif e == 'track_insert':
                i = b % (n + 1)
                tr.insert(i, dc(new[0]))
                if mtr is not None:
                    mtr.insert(i, dc(new[0]))
            elif e == 'track_extend':
                tr.extend(dc(m) for m in new)
                if mtr is not None:
                    mtr.extend(dc(m) for m in new)
            elif e == 'track_pop':
                if n:
                    i = b % n
                    if b % 2:
                        tr.pop(i)
                    else:
                        del tr[i]
                    if mtr is not None:
                        mtr.pop(i)
            elif e == 'track_slice_del':
                lo, hi = sorted((b % (n + 1), (b // 7) % (n + 1)))
                del tr[lo:hi]
                if mtr is not None:
                    del mtr[lo:hi]
            elif e == 'track_iadd':
                tr += [dc(m) for m in new]
                if mtr is not None:
                    mtr += [dc(m) for m in new]
            elif e == 'track_clear':
                tr.clear()
                if mtr is not None:
                    mtr.clear()
            elif e == 'track_sort':
                tr.sort(key=lambda m: m.time)
                if mtr is not None:
                    mtr.sort(key=lambda m: m.time)
            elif e == 'track_set':
                if n:
                    i = b % n
                    tr[i] = dc(new[0])
                    if mtr is not None:
                        mtr[i] = dc(new[0])
            elif e == 'msg_time':
                if n:
                    i = b % n
                    tr[i].time = val
                    if mtr is not None:
                        mtr[i] = mtr[i].copy(time=val)
            elif e == 'msg_note':
                idx = [j for j, m in enumerate(tr) if m.type == 'note_on']
                if idx:
                    i = idx[b % len(idx)]
                    tr[i].note = val % 128
                    if mtr is not None:
                        mtr[i] = mtr[i].copy(note=val % 128)
            elif e == 'tempo_set':
                idx = [j for j, m in enumerate(tr) if m.type == 'set_tempo']
                if idx:
                    i = idx[b % len(idx)]
                    tr[i].tempo = val * 1000
                    if mtr is not None:
                        mtr[i] = mtr[i].copy(tempo=val * 1000)
            elif e == 'export':
                # the application converts the messages of a track to its own representation and works on that
                # (absolute times, transposition, a thawed copy for another file): the file itself is not edited
                from mido.frozen import thaw_message
                acc = 0
                for m in list(tr):
                    d = m.dict()
                    acc += d['time'] if isinstance(d['time'], int) else 0
                    d['time'] = acc + 1000
                    for key in ('note', 'tempo'):
                        if key in d:
                            d[key] = 1
                    if d.get('type') == 'sysex' and isinstance(d.get('data'), list):
                        d['data'].append(0)         # documented: dict() gives sysex data as a list of its own
                    t = thaw_message(m)
                    t.time = acc + 2000
                    if t.type == 'note_on':
                        t.note = (t.note + 12) % 128
                    c = m.copy()
                    c.time = 3000
                    try:
                        b = m.bytes()
                        b.append(0)
                    except UnicodeEncodeError:
                        pass        # a text the default charset cannot express: bytes() refuses, as save() would
                stats['fault:messages_exported_and_export_edited'] += 1
            elif e == 'slice_copy':
                # a copy of the track taken by slicing goes into ANOTHER file and is edited there
                how = b % 3
                cp = tr[:] if how == 0 else (tr[:n + 3] if how == 1 else (tr[-n:] if n else tr[:]))
                other = MidiFile(type=1)
                other.tracks.append(cp)
                cp.append(Message('note_on', note=99, time=5))
                if len(cp) > 1:
                    del cp[0]
                stats['fault:slice_copy_edited_elsewhere'] += 1
            elif e == 'text_set':
                idx = [j for j, m in enumerate(tr) if m.type == 'text']
                if idx:
                    i = idx[b % len(idx)]
                    txt = ('\u20acuro', '\xe9t\xe9', 'ok', '\xff', '\u65e5')[val % 5]
                    tr[i].text = txt
                    if mtr is not None:
                        mtr[i] = mtr[i].copy(text=txt)
            elif e == 'bad_track_name':
                # a name the track cannot take: the assignment raises and the track stays as it was
                if isinstance(tr, MidiTrack):
                    try:
                        tr.name = (None, 5, b'x')[b % 3]
                    except (TypeError, ValueError):
                        stats['fault:rejected_assignment'] += 1
                    else:
                        if mtr is not None:
                            mtr[:] = [dc(m) for m in tr]      # accepted after all: mirror it
            elif e == 'bad_assign':
                # an assignment the message type does not allow: it raises, and the application carries on with
                # the file as it was
                if n:
                    i = b % n
                    m = tr[i]
                    name, bad = {'note_on': ('note', 200), 'set_tempo': ('tempo', -1), 'sysex': ('data', [1, 200]),
                                 'sequencer_specific': ('data', [1, 300]), 'text': ('text', 5),
                                 }.get(m.type, ('time', 'soon'))
                    if val % 3 == 0 and m.type == 'note_on':
                        name, bad = 'velocity', -1
                    try:
                        setattr(m, name, bad)
                    except (ValueError, TypeError):
                        stats['fault:rejected_assignment'] += 1
                    else:
                        # accepted after all (how strict validation is is not this property's business): mirror it
                        if mtr is not None:
                            vars(mtr[i])[name] = getattr(m, name)
            elif e == 'track_name':
                if not isinstance(tr, MidiTrack):
                    return      # a plain list has no name property: not a documented edit
                tr.name = f'name{b % 5}'
                if mtr is not None:
                    for j, m in enumerate(mtr):
                        if m.type == 'track_name':
                            mtr[j] = m.copy(name=f'name{b % 5}')
                            break
                    else:
                        mtr.insert(0, MetaMessage('track_name', name=f'name{b % 5}', time=0))
        elif e == 'set_type':
            target.type = small
            if model is not None:
                model['type'] = small
        elif e == 'set_tpb':
            v = (1, 96, 480, 960, 24, 0, -6360, 480)[(val + a) % 8]
            target.ticks_per_beat = v
            if model is not None:
                model['tpb'] = v
        stats['edit:' + e] += 1

    def _contents(self, mf):
        return (mf.type, mf.ticks_per_beat, [[repr(m) for m in t] for t in mf.tracks])

    def _simulate(self, plan, log, stats, cov):
        self._held = {}
        self._hold_tracks = bool(plan.get('hold_tracks'))
        self._tracks_ref = {}
        if self._hold_tracks:
            stats['fault:tracks_list_reference_kept'] += 1
        a = self._make(plan)
        b = self._make(plan)
        model = {'type': a.type, 'tpb': a.ticks_per_beat, 'tracks': [[dc(m) for m in t] for t in a.tracks]}
        last_obs = None
        edits_since = []
        observed = False
        susp = {}
        for op in plan['ops']:
            stats['steps'] += 1
            if op[0] == 'edit':
                self._drop(susp)     # what a suspended observation does after an edit is not defined
                try:
                    self._apply(a, model, op, stats)
                    self._apply(b, None, op, stats)
                except Violation:
                    raise
                except Exception as e:
                    raise Violation(f'edit-raised:{op[1]}', f'edit {op[1]} raised {type(e).__name__}: {e}')
                edits_since.append(op[1])
                log.ev('edit', op[1])
                if observed:
                    stats['probe:edit_after_observation'] += 1
                    if last_obs in ('iter', 'merged', 'merged_mutate', 'play', 'play_abandon'):
                        stats['probe:edit_after_iteration'] += 1
                    if last_obs == 'length':
                        stats['probe:edit_after_length'] += 1
                    if op[1] == 'add_track':
                        stats['probe:add_track_after_observation'] += 1
                    if last_obs == 'play_abandon':
                        stats['probe:play_abandoned_then_edited'] += 1
                continue
            kind, arg = op[1], op[2]
            if kind in ('play_start', 'iter_start'):
                # an observation that stays in progress: take `arg` messages and keep the generator
                self._drop(susp)
                try:
                    if kind == 'play_start':
                        clk = Clock()
                        mfmod.time = clk
                        g = a.play(meta_messages=True, now=clk.now)
                    else:
                        clk = None
                        g = iter(a)
                    got = []
                    for _ in range(arg):
                        m = next(g, None)
                        if m is None:
                            break
                        got.append(repr(m))
                    susp.update({'kind': kind, 'gen': g, 'clock': clk, 'got': got})
                except Exception as e:
                    susp.clear()
                    log.ev('obs', kind, 'raised', type(e).__name__)
                finally:
                    mfmod.time = self._saved
                log.ev('obs', kind, len(susp.get('got', [])))
                stats['obs:' + kind] += 1
                continue
            if kind == 'resume':
                if not susp:
                    continue
                try:
                    if susp['clock'] is not None:
                        mfmod.time = susp['clock']
                    rest = [repr(m) for m in susp['gen']]
                    raised = None
                except Exception as e:
                    rest = []
                    raised = type(e).__name__
                finally:
                    mfmod.time = self._saved
                if raised is not None:
                    whole_a = ('raised', raised)
                elif susp['kind'] == 'iter_start':
                    whole_a = ('ok', susp['got'] + rest)
                else:
                    whole_a = ('ok', susp['got'] + rest, repr(susp['clock'].t), [repr(d) for d in susp['clock'].slept])
                ref_kind = 'iter' if susp['kind'] == 'iter_start' else 'play'
                whole_f = self._observe(self._fresh(model), ref_kind, 1)
                log.ev('obs', 'resume', susp['kind'], len(rest))
                stats['probe:suspended_observation_resumed'] += 1
                if susp.get('others'):
                    stats['probe:observation_inside_suspended_observation'] += 1
                susp.clear()
                if whole_a != whole_f:
                    raise Violation(f'stale:resumed-{ref_kind}',
                                    f'a {ref_kind} that was suspended while other observations were made continued '
                                    f'differently from an uninterrupted one: {self._short(whole_a)} vs fresh '
                                    f'{self._short(whole_f)}')
                continue
            if susp:
                susp['others'] = susp.get('others', 0) + 1
                other = MidiFile(type=1, ticks_per_beat=24, tracks=[MidiTrack([
                    MetaMessage('set_tempo', tempo=123456, time=0), Message('note_on', note=arg % 128, time=5),
                    Message('note_on', note=1, time=11)])])
                o1 = self._observe(other, 'length', 0)
                o2 = self._observe(other, 'iter', 0)
                exp_len = repr(16 * 123456 * 1e-6 / 24)
                if o1[0] != 'ok' or o2[0] != 'ok' or len(o2[1]) != 4 or abs(float(o1[1]) - 16 * 0.123456 / 24) > 1e-9:
                    raise Violation('bystander-file-wrong', f'an unrelated file measured while another observation was '
                                                            f'suspended gave {o1!r} / {self._short(o2)} (expected length '
                                                            f'{exp_len})')
                stats['fault:other_file_observed_while_suspended'] += 1
            before = self._contents(a)
            res_a = self._observe(a, kind, arg)
            res_f = self._observe(self._fresh(model), 'iter' if kind == 'iter_edit' else kind, arg)
            log.ev('obs', kind, res_a[0], len(str(res_a)))
            if self._contents(a) != before:
                raise Violation(f'observation-mutated:{kind}', f'{kind} changed the file\'s tracks')
            mod = (model['type'], model['tpb'], [[repr(m) for m in t] for t in model['tracks']])
            if before != mod:
                raise Violation('contents-diverged', f'after the edits the file holds {before!r}, the plain model '
                                                     f'{mod!r}')
            if kind in ('iter', 'length', 'iter_edit') and res_a[0] == 'ok' and model['type'] != 2:
                # independent of any second mido object: exact tempo-map model of the current contents
                from .playback import ENGINE as PB
                mtracks = [MidiTrack(m.copy() for m in t) for t in model['tracks']]
                try:
                    ref = PB._model({'tpb': model['tpb']}, mtracks)
                except Exception:
                    ref = None
                if ref is not None and all(isinstance(m.time, int) and m.time >= 0 for t in mtracks for m in t):
                    total = float(ref[-1][2])
                    if kind == 'length':
                        got_len = float(res_a[1])
                        if abs(got_len - total) > 1e-9 * max(1.0, total) + 1e-12:
                            raise Violation('stale:length-vs-contents', f'length is {got_len!r}; the tempo-map integral of '
                                                                        f'the current contents is {total!r} (edits since the '
                                                                        f'last observation: {edits_since})')
                    else:
                        if len(res_a[1]) != len(ref):
                            raise Violation('stale:iter-vs-contents', f'iteration yields {len(res_a[1])} messages, the '
                                                                      f'current contents merge to {len(ref)}')
                    stats['checked_against_independent_model'] += 1
            if kind == 'save' and res_a[0] == 'ok':
                # independent reading of what was written: must be the current contents
                try:
                    ft, nt, div, wtracks = simdisk.walk_smf(bytes.fromhex(res_a[1]))
                except simdisk.SMFError as e:
                    raise Violation('save:image-not-smf', f'saved image cannot be read by the independent walker: {e}')
                exp = [expected_events(t) for t in model['tracks']]
                if None not in exp:
                    got_ev = [[(d, k, a2, bytes(b2)) for d, k, a2, b2 in tr] for tr in wtracks]
                    if got_ev != exp or ft != model['type'] or div != (model['tpb'] & 0xFFFF):
                        raise Violation('stale:save-vs-contents',
                                        f'save() wrote {got_ev!r} (type {ft}, division {div}); the file\'s current '
                                        f'contents are {exp!r} (type {model["type"]}, {model["tpb"]}); edits since the last '
                                        f'observation: {edits_since}')
                    stats['save_checked_independently'] += 1
            if res_a != res_f:
                raise Violation(f'stale:{kind}', f'{kind} on the edited file gave {self._short(res_a)}, a fresh file '
                                                 f'with the same contents gives {self._short(res_f)} (edits since the '
                                                 f'last observation: {edits_since}, last observation: {last_obs})')
            if res_a[0] == 'raised' and observed:
                stats['probe:observation_failed_then_observed_again'] += 1
            cov.add(f'{last_obs}|{edits_since[-1] if edits_since else "-"}|{kind}')
            last_obs = kind
            observed = True
            edits_since = []
            stats['obs:' + kind] += 1
        self._drop(susp)
        # twin: B saw the same edits but was never observed
        for kind in ('iter', 'length', 'merged', 'play', 'save'):
            ra = self._observe(a, kind, 1)
            rb = self._observe(b, kind, 1)
            rf = self._observe(self._fresh(model), kind, 1)
            if ra != rb or ra != rf:
                who = 'observed file vs never-observed twin' if ra != rb else 'file vs fresh file'
                raise Violation(f'stale-final:{kind}', f'final {kind}: {who} differ: A={self._short(ra)} '
                                                       f'B={self._short(rb)} fresh={self._short(rf)}')
        log.ev('final', self._short(self._observe(a, 'length', 0)))
        if any(op[0] == 'edit' for op in plan['ops']) and any(op[0] == 'obs' for op in plan['ops']):
            stats['_nontrivial'] += 1
        if plan.get('bulk'):
            stats['probe:bulk_file'] += 1

    def _drop(self, susp):
        g = susp.get('gen')
        if g is not None and hasattr(g, 'close'):
            g.close()
        susp.clear()

    def _short(self, res):
        s = repr(res)
        return s if len(s) < 400 else s[:400] + '...'

    # ---------------------------------------------------------- shrinking
    def shrink(self, prop, plan):
        yield from shrink_list_at(plan, ('ops',))
        yield from shrink_list_at(plan, ('tracks',))
        for i in range(len(plan['tracks'])):
            yield from shrink_list_at(plan, ('tracks', i))
        if plan['init'] != 'tracks':
            yield replace_at(plan, ('init',), 'tracks')
        for i, op in enumerate(plan['ops']):
            if op[0] == 'edit' and len(op[4]) > 1:
                yield replace_at(plan, ('ops', i, 4), op[4][:1])

    def rule(self, prop):
        return ('Each run: a MidiFile (empty, built from tracks, or loaded from simulated storage) receives a history of '
                '2-16 operations mixing 18 kinds of documented edits (add_track, list operations on tracks and on a '
                'track, attribute assignment on messages, track.name, type, ticks_per_beat) with observations (iterate, '
                'length, merged_track, play on a virtual clock complete or abandoned, save to simulated storage, save '
                'with an injected write error). After every observation the same observation on a fresh MidiFile built '
                'from an independent plain-list model must give the identical result or exception type; a twin that '
                'received only the edits is compared at the end. Non-trivial = at least one edit and one observation.')

    def coverage_report(self, prop, cov):
        return {'last_observation_x_last_edit_x_observation_cells_hit': len(cov),
                'of': (len(OBS) + 1) * (len(EDITS) + 1) * len(OBS)}

    def components(self, prop):
        return {'real': ['MidiFile.__init__/add_track/merged_track/__iter__/length/play/save/_load',
                         'MidiTrack (list operations, name property)', 'merge_tracks', 'message attribute assignment'],
                'stub': ['clock and sleep for play()', 'storage for save()/load (simkit.simdisk) incl. write errors'],
                'not_run': []}

    def assumptions(self, prop):
        return ['"Same contents" = type, ticks_per_beat and the messages of every track, tracked by an independent '
                'plain-list model that is also compared with the file\'s own tracks before every observation.',
                'Results are compared exactly (same code on equal contents must give bit-identical floats and bytes).']

    def probe_names(self, prop):
        return ['edit_after_observation', 'edit_after_iteration', 'edit_after_length', 'add_track_after_observation',
                'observation_failed_then_observed_again', 'play_abandoned_then_edited',
                'suspended_observation_resumed', 'observation_inside_suspended_observation', 'bulk_file']


ENGINE = History()
