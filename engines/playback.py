"""Engine `playback` - MidiFile iteration / length / play() on a virtual clock (DESIGN 3: C13).

Real code: MidiFile.__iter__/length/play/merged_track, merge_tracks, tick2second/second2tick.
Stubs: the clock given to play(now=...), time.sleep inside mido.midifiles.midifiles, the
consumer (how long it spends on each yielded message), clock faults (oversleep, coarse clock,
forward and backward jumps).
"""
import bisect
import collections
import math
from fractions import Fraction

from simkit import bootstrap
from simkit import simtime
from simkit.choice import rng_for, Log, pick, weighted
from simkit.shrink import shrink_list_at, replace_at
from . import BaseEngine, Violation

mido = bootstrap()
import mido.midifiles.midifiles as mfmod  # noqa: E402
from mido.midifiles.units import tick2second, second2tick  # noqa: E402

TPBS = (1, 2, 24, 96, 480, 960, 32767)
TEMPOS = (0, 1, 250000, 500000, 1000000, 16777215)
DELTAS = (0, 0, 0, 1, 1, 2, 10, 96, 480, 1000, 100000)


def build_msg(spec, delta):
    k = spec[0]
    if k == 'note':
        return mido.Message('note_on', note=spec[1] % 128, velocity=1 + spec[1] // 128 % 127, time=delta)
    if k == 'cc':
        return mido.Message('control_change', control=spec[1] % 128, value=7, time=delta)
    if k == 'tempo':
        return mido.MetaMessage('set_tempo', tempo=spec[1], time=delta)
    if k == 'text':
        return mido.MetaMessage('text', text=f't{spec[1]}', time=delta)
    if k == 'eot':
        return mido.MetaMessage('end_of_track', time=delta)
    if k == 'etext':
        return mido.MetaMessage(('marker', 'text', 'lyrics', 'cue_marker')[spec[1] % 4], text='', time=delta)
    if k == 'eseq':
        return mido.MetaMessage('sequencer_specific', data=(), time=delta)
    if k == 'sx_open':
        return mido.Message('sysex', data=(spec[1] % 128, 5), time=delta)
    if k == 'sx_cont':
        return mido.Message('sysex', data=(spec[1] % 128,), time=delta)
    if k == 'tsig':
        return mido.MetaMessage('time_signature', numerator=1 + spec[1] % 12, denominator=2 ** (spec[1] % 6), time=delta)
    if k == 'umeta':
        from mido.midifiles.meta import UnknownMetaMessage
        return UnknownMetaMessage(0x60 + spec[1] % 8, (spec[1] % 128,), time=delta)
    raise ValueError(k)


def encode_event(spec, delta):
    """The same event as build_msg(), as an event for the independent SMF writer (simdisk.write_smf)."""
    k = spec[0]
    d = (delta, 0)
    if k == 'note':
        return (d, 'midi', 0x90, [spec[1] % 128, 1 + spec[1] // 128 % 127], False)
    if k == 'cc':
        return (d, 'midi', 0xB0, [spec[1] % 128, 7], False)
    if k == 'tempo':
        return (d, 'meta', 0x51, list(spec[1].to_bytes(3, 'big')), 0)
    if k == 'text':
        return (d, 'meta', 0x01, list(f't{spec[1]}'.encode('ascii')), 0)
    if k == 'eot':
        return (d, 'meta', 0x2F, [], 0)
    if k == 'etext':
        return (d, 'meta', (0x06, 0x01, 0x05, 0x07)[spec[1] % 4], [], 0)      # a text event with an empty payload
    if k == 'eseq':
        return (d, 'meta', 0x7F, [], 0)
    if k == 'sx_open':
        return (d, 'sysex', 0xF0, [spec[1] % 128, 5], 0)            # a sysex packet without its terminator ...
    if k == 'sx_cont':
        return (d, 'sysex', 0xF7, [spec[1] % 128, 0xF7], 0)         # ... continued by an F7 packet after some ticks
    if k == 'tsig':
        return (d, 'meta', 0x58, [1 + spec[1] % 12, spec[1] % 6, 24, 8], 0)
    if k == 'umeta':
        return (d, 'meta', 0x60 + spec[1] % 8, [spec[1] % 128], 0)
    raise ValueError(k)


def strip_time(m):
    d = dict(vars(m))
    d.pop('time', None)
    return d


class PlayClock:
    """The clock handed to play(now=...) plus the sleep it calls. true time + offset, optionally
    quantised; sleep may overshoot."""
    def __init__(self, cfg):
        self.true = cfg['start']
        self.offset = 0.0
        self.q = cfg.get('quantum', 0)
        self.over = list(cfg.get('oversleep', []))
        self.nsleep = 0
        self.last_reading = None
        self.sleeps = []        # (requested, reading before, true before)
        self.readings = 0

    def reading(self):
        t = self.true + self.offset
        if self.q:
            t = math.floor(t / self.q) * self.q
        return t

    def now(self):
        self.readings += 1
        self.last_reading = self.reading()
        return self.last_reading

    def sleep(self, d):
        self.sleeps.append((d, self.last_reading, self.true))
        extra = self.over[self.nsleep % len(self.over)] if self.over else 0.0
        self.nsleep += 1
        if d > 0:
            self.true += d + extra

    def time(self):
        return self.now()


class TimeShim:
    def __init__(self, clock):
        self.clock = clock

    def sleep(self, d):
        self.clock.sleep(d)

    def time(self):
        return self.clock.now()


class Playback(BaseEngine):
    name = 'playback'

    def tiers(self, prop):
        return {'quick': 100_000, 'thorough': 5_000_000}

    # ------------------------------------------------------------ generation
    def gen(self, prop, seed, idx, tier):
        rng = rng_for(prop, seed, idx, 'plan')
        if idx % 50 == 9:
            # two threads, each iterating and measuring its own file, under the simulated scheduler
            from .ports_conc import ENGINE as PC
            files = []
            for _ in range(2):
                files.append({'tpb': pick(rng, TPBS), 'tracks': [
                    [[pick(rng, DELTAS), 'tempo', pick(rng, TEMPOS)]] +
                    [[pick(rng, DELTAS), pick(rng, ('note', 'note', 'tempo', 'text')), rng.randrange(1, 100000)]
                     for _ in range(rng.randint(1, 5))] for _ in range(rng.randint(1, 2))]})
            plan = PC.gen_twin_files(prop, seed, idx, files, rng)
            plan['mode'] = 'twin_threads'
            return plan
        ftype = weighted(rng, ((0, 2), (1, 6), (2, 1)))
        ntracks = 1 if ftype == 0 else rng.randint(1, 4)
        tpb = pick(rng, TPBS + (rng.randint(1, 32767),))
        big = rng.random() < 0.1
        tracks = []
        counter = 0
        tempo_bias = pick(rng, (0.0, 0.15, 0.4))
        for _ in range(ntracks):
            tr = []
            for _ in range(rng.randint(0, 10 if not big else 25)):
                delta = pick(rng, DELTAS) if rng.random() < 0.8 else rng.randint(0, 2000)
                if big and rng.random() < 0.05:
                    delta = pick(rng, (2097152, 268435455))
                r = rng.random()
                if r < tempo_bias:
                    spec = ['tempo', pick(rng, TEMPOS) if rng.random() < 0.6 else rng.randint(1, 16777215)]
                elif r < tempo_bias + 0.1:
                    spec = ['text', counter]
                elif r < tempo_bias + 0.13:
                    spec = ['umeta', counter]
                elif r < tempo_bias + 0.17:
                    spec = ['eot']
                elif r < tempo_bias + 0.19:
                    spec = [pick(rng, ('etext', 'etext', 'eseq')), rng.randrange(1000)]
                elif r < tempo_bias + 0.22:
                    spec = ['tsig', rng.randrange(1000)]
                elif r < tempo_bias + 0.29:
                    spec = ['cc', counter]
                else:
                    spec = ['note', counter]
                counter += 1
                tr.append([delta] + spec)
                if rng.random() < 0.04:
                    # a system exclusive message sent in two timed packets (F0 ... / F7 ... F7)
                    tr.append([pick(rng, DELTAS), 'sx_open', counter])
                    tr.append([pick(rng, (1, 10, 96, 480)), 'sx_cont', counter])
                    counter += 1
            if rng.random() < 0.7:
                tr.append([pick(rng, DELTAS), 'eot'])
            tracks.append(tr)
        fault = weighted(rng, (('none', 5), ('oversleep', 2), ('coarse', 2), ('jump_fwd', 1), ('jump_back', 1),
                               ('mixed', 1)))
        clock = {'start': pick(rng, (0.0, 100.0, 1.7e9)), 'fault': fault}
        if fault in ('oversleep', 'mixed'):
            clock['oversleep'] = [pick(rng, (0.0, 1e-4, 0.003, 0.05)) for _ in range(3)]
        if fault in ('coarse', 'mixed'):
            clock['quantum'] = pick(rng, (1e-3, 0.015625))
        jumps = []
        if fault in ('jump_fwd', 'mixed'):
            jumps.append([rng.randint(0, 8), pick(rng, (0.01, 0.5, 30.0))])
        if fault in ('jump_back', 'mixed'):
            jumps.append([rng.randint(0, 8), -pick(rng, (0.01, 0.5, 30.0))])
        clock['jumps'] = jumps
        cons = weighted(rng, (('none', 3), ('const', 2), ('burst', 3), ('exact', 1)))
        if cons == 'none':
            delays = [0.0]
        elif cons == 'const':
            delays = [pick(rng, (1e-4, 0.01, 0.2))]
        elif cons == 'burst':
            delays = [pick(rng, (0.0, 0.0, 0.001, 0.5, 5.0)) for _ in range(5)]
        else:
            delays = ['to_next']
        bystander = None
        if rng.random() < 0.2:
            bystander = {'tpb': pick(rng, TPBS), 'tracks': [[[pick(rng, DELTAS), 'tempo', pick(rng, TEMPOS)],
                                                             [pick(rng, DELTAS), 'note', 1], [pick(rng, DELTAS), 'note', 2]]
                                                            for _ in range(rng.randint(1, 2))]}
        second = None
        if rng.random() < 0.35:
            second = {'mutate_yielded': rng.random() < 0.7,
                      'edit': pick(rng, (None, 'tpb', 'tpb', 'tempo', 'delta', 'export', 'export')),
                      'tpb': pick(rng, TPBS), 'value': pick(rng, (1, 250000, 1000000, 16777215)),
                      'pick': rng.randrange(1000)}
        return {'prop': prop, 'type': ftype, 'tpb': tpb, 'tracks': tracks, 'clock': clock,
                'delays': delays, 'abandon_after': pick(rng, (None, None, None, 0, 1, 3)),
                'meta_messages': rng.random() < 0.4, 'second': second, 'bystander': bystander,
                'play_mutate': rng.random() < 0.3, 'default_now': rng.random() < 0.25,
                'frozen': pick(rng, (0, 0, 0, 0, 1, 2, 3)),
                'loaded': pick(rng, (None, None, None, None, 'plain', 'clip', 'clip'))}

    # ------------------------------------------------------------ execution
    def abort_cleanup(self):
        saved = getattr(self, '_saved', None)
        if saved is not None:
            mfmod.time = saved
            self._saved = None
        from .ports_conc import ENGINE as PC
        PC.abort_cleanup()

    def run(self, prop, plan, keep_log=False):
        _vc = simtime.VClock(5000.0)
        simtime.activate(_vc.read, _vc.sleep)
        try:
            return self._run_inner(prop, plan, keep_log)
        finally:
            simtime.deactivate()

    def _run_inner(self, prop, plan, keep_log=False):
        if plan.get('mode') == 'twin_threads':
            from .ports_conc import ENGINE as PC
            return PC.run(prop, plan, keep_log=keep_log)
        log = Log(keep_log)
        stats = collections.Counter()
        cov = set()
        viol = None
        self._saved = mfmod.time
        sim = [0.0]
        try:
            try:
                self._simulate(plan, log, stats, cov, sim)
            except Violation as v:
                viol = {'sig': v.sig, 'msg': v.msg}
                log.ev('VIOLATION', v.sig)
        finally:
            self.abort_cleanup()
        nontrivial = stats.pop('_nontrivial', 0) > 0
        return {'viol': viol, 'digest': log.digest(), 'nontrivial': nontrivial, 'stats': stats, 'cov': cov,
                'events': log.events, 'sim_s': min(sim[0], 1e12)}

    def _model(self, plan, tracks):
        """Independent merge + tempo-map integral (Fractions). Returns [(msg, abs_tick, S_seconds)]."""
        ev = []
        max_tick = 0
        for ti, tr in enumerate(tracks):
            t = 0
            for pi, m in enumerate(tr):
                t += m.time
                max_tick = max(max_tick, t)
                if m.type != 'end_of_track':
                    ev.append((t, ti, pi, m))
        ev.sort(key=lambda e: (e[0], e[1], e[2]))
        out = []
        tempo = 500000
        s = Fraction(0)
        prev = 0
        tpb = plan['tpb']
        for t, ti, pi, m in ev:
            s += Fraction((t - prev) * tempo, 1000000 * tpb)
            prev = t
            out.append((m, t, s))
            if m.type == 'set_tempo':
                tempo = m.tempo
        s += Fraction((max_tick - prev) * tempo, 1000000 * tpb)
        out.append((mido.MetaMessage('end_of_track'), max_tick, s))
        return out

    def _simulate(self, plan, log, stats, cov, sim):
        tracks = [mido.MidiTrack(build_msg(e[1:], e[0]) for e in tr) for tr in plan['tracks']]
        if plan.get('frozen'):
            # frozen (immutable, hashable) messages are legal track content
            from mido.frozen import freeze_message
            k = 0
            for tr in tracks:
                for i, m in enumerate(tr):
                    k += 1
                    if k % plan['frozen'] == 0:
                        tr[i] = freeze_message(m)
            stats['fault:frozen_messages_in_tracks'] += 1
        try:
            mf = mido.MidiFile(type=plan['type'], ticks_per_beat=plan['tpb'], tracks=tracks)
        except Exception as e:
            raise Violation('construct-raised', f'MidiFile(type={plan["type"]}, tracks=...) raised {e!r}')
        model_tracks = tracks
        if plan.get('loaded') and plan['type'] != 2:
            # the same content arrives as a file image (written by the independent writer) and is loaded, with or
            # without clip=True (nothing in it needs clipping); the oracle stays with the content of the plan
            from simkit import simdisk
            image = simdisk.write_smf(plan['type'], plan['tpb'],
                                      [[encode_event(e[1:], e[0]) for e in tr] for tr in plan['tracks']])
            try:
                mf = mido.MidiFile(file=simdisk.SimDisk().handle_from(image), clip=(plan['loaded'] == 'clip'))
            except Exception as e:
                raise Violation('load-raised', f'loading the image of the planned file (clip={plan["loaded"] == "clip"}) '
                                               f'raised {e!r}')
            tracks = mf.tracks
            stats['fault:file_loaded_from_bytes' + ('_clip' if plan['loaded'] == 'clip' else '')] += 1
        snapshot = [[(m.type, m.time) for m in tr] for tr in tracks]
        # ---- type 2 refuses iteration and length
        if plan['type'] == 2:
            for what, fn in (('iteration', lambda: list(mf)), ('length', lambda: mf.length),
                             ('play', lambda: list(mf.play(now=lambda: 0.0)))):
                try:
                    fn()
                except (TypeError, ValueError):
                    stats['type2_refused'] += 1
                    continue
                except Exception as e:
                    raise Violation(f'type2:{what}-wrong-exception', f'type 2 {what} raised {e!r}')
                raise Violation(f'type2:{what}-not-refused', f'{what} of a type 2 file did not raise')
            log.ev('type2-refused')
            return
        model = self._model(plan, model_tracks)
        # how the packets of a split sysex are presented as messages is not C13's business: with such packets in
        # a loaded file only the other messages are compared, the packets' ticks still count
        self._loose_sysex = bool(plan.get('loaded')) and any(e[1] in ('sx_open', 'sx_cont') for tr in plan['tracks']
                                                             for e in tr)
        if self._loose_sysex:
            stats['fault:split_sysex_packets_in_file'] += 1
        seq = self._check_iter_length(mf, model, tracks, snapshot, log, sim, 'first')
        self._rest(plan, mf, model, tracks, seq, log, stats, cov)

    def _check_iter_length(self, mf, model, tracks, snapshot, log, sim, which):
        # ---- iteration and length
        try:
            seq = list(mf)
        except Exception as e:
            raise Violation(f'raised:{type(e).__name__}@iter', f'iterating the file raised {e!r}')
        pairs = list(zip(seq, model))
        if getattr(self, '_loose_sysex', False):
            acc = 0.0
            timed = []
            for m in seq:
                acc += m.time
                if m.type != 'sysex':
                    timed.append((m, acc))
            refs = [e for e in model if e[0].type != 'sysex']
            if len(timed) != len(refs):
                raise Violation('iter:count', f'iteration yielded {len(timed)} non-sysex messages, merged model has '
                                              f'{len(refs)}')
            for j, ((m, at), (ref, tick, s)) in enumerate(zip(timed, refs)):
                if strip_time(m) != strip_time(ref):
                    raise Violation('iter:order-or-content', f'message #{j} is {m!r}, model says {ref!r} at tick {tick}')
                fs = float(s)
                if abs(at - fs) > 1e-9 * max(1.0, abs(fs)) + 1e-12:
                    raise Violation('iter:time', f'message #{j} ({m.type}, tick {tick}): cumulative time {at!r}, '
                                                 f'tempo-map integral {fs!r}')
            pairs = []
        elif len(seq) != len(model):
            raise Violation('iter:count', f'iteration yielded {len(seq)} messages, merged model has {len(model)}')
        cum = 0.0
        for j, (m, (ref, tick, s)) in enumerate(pairs):
            if strip_time(m) != strip_time(ref):
                raise Violation('iter:order-or-content', f'message #{j} is {m!r}, model says {ref!r} at tick {tick}')
            if m is ref:
                raise Violation('iter:not-a-copy', f'message #{j} yielded by iteration is the track\'s own object')
            cum += m.time
            fs = float(s)
            if abs(cum - fs) > 1e-9 * max(1.0, abs(fs)) + 1e-12:
                raise Violation('iter:time', f'message #{j} ({m.type}, tick {tick}): cumulative time {cum!r}, tempo-map '
                                             f'integral {fs!r}')
        total = float(model[-1][2])
        try:
            ln = mf.length
        except Exception as e:
            raise Violation(f'raised:{type(e).__name__}@length', f'length raised {e!r}')
        if abs(ln - total) > 1e-9 * max(1.0, total) + 1e-12:
            raise Violation('length', f'length is {ln!r}, cumulative time of the last message is {total!r}')
        if [[(m.type, m.time) for m in tr] for tr in tracks] != snapshot:
            raise Violation('iter:mutated-tracks', 'iterating changed the tracks')
        log.ev('iter', which, len(seq), repr(ln))
        sim[0] += total
        return seq

    def _rest(self, plan, mf, model, tracks, seq, log, stats, cov):
        # ---- unit conversions on the triples that occur
        tempos = {500000} | {m.tempo for m, _, _ in model if m.type == 'set_tempo' and m.tempo > 0}
        ticks = {t for _, t, _ in model}
        for tempo in sorted(tempos)[:4]:
            for t in sorted(ticks)[:12]:
                try:
                    back = second2tick(tick2second(t, plan['tpb'], tempo), plan['tpb'], tempo)
                except Exception as e:
                    raise Violation('units:raised', f'tick/second conversion raised {e!r} for t={t} tpb={plan["tpb"]} '
                                                    f'tempo={tempo}')
                if back != t:
                    raise Violation('units:not-inverse', f'second2tick(tick2second({t}, {plan["tpb"]}, {tempo})) = '
                                                         f'{back}')
                stats['unit_triples'] += 1
        # ... and for tempos that are not whole microseconds (any positive tempo), with large ticks too
        for tempo in (60e6 / 132, 0.5, 333333.3333333333, 1e-3, 499999.5, 16777215.75):
            for t in (0, 1, 7, plan['tpb'], 10 ** 6 + 1, 268435455):
                try:
                    back = second2tick(tick2second(t, plan['tpb'], tempo), plan['tpb'], tempo)
                except Exception as e:
                    raise Violation('units:raised', f'tick/second conversion raised {e!r} for t={t} tpb={plan["tpb"]} '
                                                    f'tempo={tempo}')
                if back != t:
                    raise Violation('units:not-inverse', f'second2tick(tick2second({t}, {plan["tpb"]}, {tempo!r})) = '
                                                         f'{back}')
                stats['unit_triples'] += 1
        # probes on the file
        tie_ticks = collections.Counter(t for _, t, _ in model[:-1])
        for m, t, _ in model:
            if m.type == 'set_tempo':
                if tie_ticks[t] > 1:
                    stats['probe:tempo_change_at_tie'] += 1
                if m.tempo == 0:
                    stats['probe:tempo_zero'] += 1
        if any(e[1] == 'tempo' for tr in plan['tracks'][1:] for e in tr):
            stats['probe:tempo_change_in_second_track'] += 1
        # ---- another, unrelated file is iterated in the same process before ours is played
        by = plan.get('bystander')
        if by:
            btracks = [mido.MidiTrack(build_msg(e[1:], e[0]) for e in tr) for tr in by['tracks']]
            bmf = mido.MidiFile(type=1, ticks_per_beat=by['tpb'], tracks=btracks)
            bplan = dict(plan, tpb=by['tpb'])
            bsnap = [[(m.type, m.time) for m in tr] for tr in btracks]
            try:
                self._check_iter_length(bmf, self._model(bplan, btracks), btracks, bsnap, log, [0.0], 'bystander')
            except Violation as v:
                raise Violation('bystander:' + v.sig, 'a second, unrelated file iterated in between: ' + v.msg)
            stats['fault:other_file_in_between'] += 1
        # ---- play() on the simulated clock
        self._play(plan, mf, model, log, stats)
        # ---- the same object observed again: after the consumer edited what it was handed, and/or after an edit
        sec = plan.get('second')
        if sec:
            if sec['mutate_yielded']:
                for m in seq:
                    try:
                        m.time = 1234.5
                        if m.type == 'note_on':
                            m.note = (m.note + 1) % 128
                    except Exception:
                        pass
                stats['fault:consumer_mutates_yielded'] += 1
            if sec['edit'] == 'export':
                # the application converts the messages to its own representation (dict(), copy(), bytes()) and
                # works on that - absolute times, another tempo; the file itself was not edited
                plan2 = plan
                for tr in tracks:
                    acc = 0
                    for m in tr:
                        try:
                            d = m.dict()
                            acc += d['time']
                            d['time'] = acc + 1000
                            if 'tempo' in d:
                                d['tempo'] = 1
                            if d.get('type') == 'sysex' and isinstance(d.get('data'), list):
                                d['data'].append(0)
                            c = m.copy()
                            if not type(c).__name__.startswith('Frozen'):
                                c.time = acc + 2000
                            b = m.bytes()
                            b.append(0)
                        except Exception as e:
                            raise Violation('export-raised', f'dict()/copy()/bytes() of {m!r} raised {e!r}')
                stats['fault:messages_exported_and_export_edited'] += 1
            elif sec['edit'] == 'tpb':
                mf.ticks_per_beat = sec['tpb']
                plan2 = dict(plan, tpb=sec['tpb'])
            else:
                plan2 = plan
                flat = [(ti, i) for ti, tr in enumerate(tracks) for i, m in enumerate(tr)
                        if (sec['edit'] == 'tempo' and m.type == 'set_tempo') or sec['edit'] == 'delta']
                if sec['edit'] in ('tempo', 'delta') and flat:
                    ti, i = flat[sec['pick'] % len(flat)]
                    from mido.frozen import thaw_message
                    m = thaw_message(tracks[ti][i])      # a frozen message is replaced by an edited thawed copy
                    if sec['edit'] == 'tempo':
                        m.tempo = sec['value']
                    else:
                        m.time = m.time + 7
                    tracks[ti][i] = m
            snapshot2 = [[(m.type, m.time) for m in tr] for tr in tracks]
            model2 = self._model(plan2, tracks)
            if sec['edit'] == 'export':
                model2 = model          # nothing was edited: the file is what it was
            sim2 = [0.0]
            try:
                self._check_iter_length(mf, model2, tracks, snapshot2, log, sim2, 'second')
            except Violation as v:
                raise Violation('second-pass:' + v.sig, f'second observation of the same object (consumer mutated what '
                                                        f'it was handed: {sec["mutate_yielded"]}, edit: {sec["edit"]}): '
                                                        + v.msg)
            stats['probe:second_pass'] += 1
        cov.add(f't{plan["type"]}|{plan["clock"]["fault"]}|{"meta" if plan["meta_messages"] else "nometa"}')
        if len(model) > 1:
            stats['_nontrivial'] += 1

    def _play(self, plan, mf, model, log, stats):
        cfg = plan['clock']
        clock = PlayClock(cfg)
        mfmod.time = TimeShim(clock)
        fault = cfg.get('fault', 'none')
        exact = fault == 'none'
        quantum = cfg.get('quantum', 0) or 0.0
        want = [(m, t, s) for (m, t, s) in model if plan['meta_messages'] or not m.is_meta]
        jumps = collections.defaultdict(float)
        for k, j in cfg.get('jumps', []):
            jumps[k] += j
        mag = abs(cfg['start']) + float(model[-1][2]) + sum(abs(j) for j in jumps.values()) + 1.0
        tol = 8 * math.ulp(mag) + 1e-9
        # the process-wide time seam reads this run's clock too, so play()'s default now=time.time can be used
        simtime.activate(clock.now, clock.sleep)
        try:
            if plan.get('default_now'):
                gen = mf.play(meta_messages=plan['meta_messages'])
                stats['probe:play_default_clock'] += 1
            else:
                gen = mf.play(meta_messages=plan['meta_messages'], now=clock.now)
        except Exception as e:
            raise Violation(f'raised:{type(e).__name__}@play', f'play() raised {e!r}')
        start_reading = None
        got = 0
        delays = plan['delays'] or [0.0]
        true_start = clock.true
        nsleeps_seen = 0
        late_before = False
        while True:
            if plan['abandon_after'] is not None and got >= plan['abandon_after']:
                gen.close()
                stats['probe:abandoned'] += 1
                break
            if got in jumps:
                clock.offset += jumps[got]
                stats['fault:clock_jump_back' if jumps[got] < 0 else 'fault:clock_jump_forward'] += 1
            t_request = clock.true
            if start_reading is None:
                # play() reads the supplied clock once when it starts: that reading is the schedule origin
                start_reading = clock.reading()
            try:
                m = next(gen, StopIteration)
            except Exception as e:
                raise Violation(f'raised:{type(e).__name__}@play', f'play() raised {e!r} at message #{got}')
            if m is StopIteration:
                if got != len(want):
                    raise Violation('play:count', f'play() yielded {got} messages, expected {len(want)}')
                break
            if got >= len(want):
                raise Violation('play:count', f'play() yielded more than the {len(want)} expected messages: {m!r}')
            ref, tick, s = want[got]
            if strip_time(m) != strip_time(ref):
                raise Violation('play:order-or-content', f'play() message #{got} is {m!r}, expected {ref!r}')
            fs = float(s)
            reading = clock.reading()
            if reading < start_reading + fs - quantum - tol - 1e-9 * fs:
                raise Violation('play:early', f'message #{got} ({m.type}, scheduled at +{fs!r}s) was yielded when the '
                                              f'supplied clock read +{reading - start_reading!r}s')
            # every sleep requested so far must be exactly the remaining time on the supplied clock
            for d, before, true_before in clock.sleeps[nsleeps_seen:]:
                if not d > 0:
                    raise Violation('play:sleep-nonpositive', f'sleep({d!r}) was requested')
                stats['sleeps'] += 1
            nsleeps_seen = len(clock.sleeps)
            if exact:
                should = max(t_request, true_start + fs)
                if abs(clock.true - should) > tol + 1e-9 * fs:
                    raise Violation('play:drift', f'message #{got} ({m.type}) yielded at +{clock.true - true_start!r}s; '
                                                  f'requested at +{t_request - true_start!r}s, scheduled at +{fs!r}s, so '
                                                  f'it was due at +{should - true_start!r}s')
                if t_request > true_start + fs + tol:
                    stats['probe:consumer_overran_next_event'] += 1
            log.ev('play', got, m.type, repr(round(clock.true - true_start, 9)))
            if plan.get('play_mutate'):
                # the docstring of play() says the yielded copies may be modified freely
                try:
                    m.time = 0 if got % 2 else 3600.0
                except Exception:
                    pass
                stats['fault:consumer_mutates_played'] += 1
            got += 1
            d = delays[got % len(delays)]
            if d == 'to_next':
                # a delay that ends exactly at the next scheduled time
                nxt = want[got][2] if got < len(want) else None
                d = max(0.0, float(nxt) - (clock.true - true_start)) if nxt is not None else 0.0
                stats['probe:consumer_delay_ends_at_schedule'] += 1
            clock.true += d
        # sleep requests: each must equal (scheduled time of the message being waited for) - (clock reading)
        self._check_sleeps(plan, clock, model, start_reading, tol, stats)
        if not plan['meta_messages'] and any(m.is_meta for m, _, _ in model[:-1]) and clock.sleeps:
            stats['probe:meta_skipped_but_slept'] += 1
        if any(j < 0 for j in jumps.values()):
            stats['probe:backward_jump'] += 1
        if cfg.get('oversleep'):
            stats['fault:oversleep'] += 1
        if quantum:
            stats['fault:coarse_clock'] += 1

    def _reading_at(self, cfg, true, offset):
        t = true + offset
        q = cfg.get('quantum', 0)
        if q:
            t = math.floor(t / q) * q
        return t

    def _check_sleeps(self, plan, clock, model, start_reading, tol, stats):
        """Each requested sleep equals S_j - (reading - start) for some message j of the merged file (the one
        play() was waiting for), and is positive."""
        targets = sorted({float(s) for _, _, s in model})
        for d, before, _ in clock.sleeps:
            if before is None:
                raise Violation('play:sleep-without-reading', 'play() slept without reading the supplied clock')
            want = d + (before - start_reading)     # the schedule point this sleep aims at
            # nearest schedule point
            i = bisect.bisect_left(targets, want)
            cands = targets[max(0, i - 1):i + 1]
            err = min(abs(want - c) for c in cands) if cands else float('inf')
            if err > tol + 1e-9 * abs(want):
                raise Violation('play:sleep-not-remaining-time',
                                f'sleep({d!r}) requested when the supplied clock read +{before - start_reading!r}s: '
                                f'that aims at +{want!r}s, which is no scheduled time of the file '
                                f'(nearest {cands})')
        if not clock.sleeps:
            stats['probe:sleep_skipped_because_late'] += 1

    # ------------------------------------------------------------ shrinking
    def shrink(self, prop, plan):
        if plan.get('mode') == 'twin_threads':
            from .ports_conc import ENGINE as PC
            yield from PC.shrink(prop, plan)
            return
        if len(plan['tracks']) > 1 and plan['type'] != 0:
            yield from shrink_list_at(plan, ('tracks',), min_len=1)
        for i in range(len(plan['tracks'])):
            yield from shrink_list_at(plan, ('tracks', i))
        c = plan['clock']
        if c.get('fault') != 'none':
            yield replace_at(plan, ('clock',), {'start': c['start'], 'fault': 'none', 'jumps': []})
        if c['start']:
            yield replace_at(plan, ('clock', 'start'), 0.0)
        if plan['delays'] != [0.0]:
            yield replace_at(plan, ('delays',), [0.0])
        if plan['abandon_after'] is not None:
            yield replace_at(plan, ('abandon_after',), None)
        if plan.get('frozen'):
            yield replace_at(plan, ('frozen',), 0)
        for flag in ('play_mutate', 'second', 'bystander'):
            if plan.get(flag):
                yield replace_at(plan, (flag,), None if flag != 'play_mutate' else False)
        if plan['tpb'] != 480:
            yield replace_at(plan, ('tpb',), 480)
        for i, tr in enumerate(plan['tracks']):
            for j, e in enumerate(tr):
                if e[0] not in (0, 1, 480):
                    yield replace_at(plan, ('tracks', i, j, 0), 480)
                if e[1] == 'tempo' and e[2] not in (250000, 1000000):
                    yield replace_at(plan, ('tracks', i, j, 2), 1000000)

    def rule(self, prop):
        return ('Each run: a generated file (type 0/1, or 2 for the refusal clause; ticks_per_beat from '
                '{1,2,24,96,480,960,32767,random}; 1-4 tracks; set_tempo anywhere incl. tempo 0, 1, 16777215 and at '
                'the same tick as events of other tracks; deltas 0 .. 268435455) is iterated, measured and played on a '
                'simulated clock by a consumer that spends a planned amount of virtual time on each yielded message '
                '(none, constant, bursts longer than the gap, a delay ending exactly at the next scheduled time, '
                'abandonment), with clock faults (oversleep, coarse clock, forward/backward jump). Non-trivial = the '
                'merged file has at least one message besides end_of_track.')

    def coverage_report(self, prop, cov):
        return {'file_type_x_clock_fault_x_meta_cells_hit': len(cov), 'cells': sorted(cov)}

    def components(self, prop):
        return {'real': ['MidiFile.__iter__/length/play/merged_track', 'mido.midifiles.tracks.merge_tracks / '
                         'fix_end_of_track', 'mido.midifiles.units.tick2second / second2tick'],
                'stub': ['clock passed as play(now=...)', 'time.sleep in mido.midifiles.midifiles -> virtual clock',
                         'the consumer of the generator'],
                'not_run': []}

    def assumptions(self, prop):
        return ['Oracle: independent stable merge (absolute tick, track index, position) and tempo-map integral in '
                'exact rational arithmetic; float results compared with relative tolerance 1e-9.',
                'Under a coarse supplied clock "never early" allows one clock quantum (a reading cannot be more '
                'precise than the clock).',
                'The inverse law of tick2second/second2tick is monitored on the (tick, tpb, tempo>0) triples that '
                'occur in the runs, not claimed over its whole domain.']

    def probe_names(self, prop):
        return ['tempo_change_at_tie', 'tempo_change_in_second_track', 'consumer_overran_next_event',
                'sleep_skipped_because_late', 'meta_skipped_but_slept', 'backward_jump', 'tempo_zero',
                'consumer_delay_ends_at_schedule', 'abandoned']


ENGINE = Playback()
