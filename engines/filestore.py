"""Engine `filestore` - MidiFile.save / MidiFile(...) against simulated storage and an in-memory
content model (DESIGN 3: C07).

Three configurations, reported separately:
  roundtrip      fault-free store-vs-model: load(save(F)) == normalise(F)
  unstorable     content the statement lists as unstorable must make save raise ValueError,
                 content it lists as storable must not be refused
  stored_faults  for one sampled image EVERY single-byte at-rest fault is visited (truncate at
                 each offset, overwrite each byte with each of 6 boundary values) plus random
                 multi-byte damage; whatever still loads must be a fixed point of load-save-load
"""
import collections
import sys

from simkit import bootstrap
from simkit import simtime
from simkit.choice import rng_for, Log, pick, weighted
from simkit import simdisk
from simkit.shrink import shrink_list_at, replace_at
from . import BaseEngine, Violation

mido = bootstrap()
import mido.midifiles.midifiles as mfmod  # noqa: E402
from mido import MidiFile, MidiTrack, MetaMessage, Message  # noqa: E402
from mido.midifiles.meta import UnknownMetaMessage  # noqa: E402
from mido.frozen import freeze_message, thaw_message  # noqa: E402
from mido.midifiles import meta as metamod  # noqa: E402


class MetaSpec_verif_custom(metamod.MetaSpec):
    """A meta message type the application registers itself through the documented add_meta_spec()."""
    type_byte = 0x62
    attributes = ['param']
    defaults = [1]

    def decode(self, message, data):
        message.param = data[0]

    def encode(self, message):
        return [message.param]

    def check(self, name, value):
        if not isinstance(value, int) or not 0 <= value <= 255:
            raise ValueError('param must be in range 0..255')


def register_custom_meta():
    metamod.add_meta_spec(MetaSpec_verif_custom)


def unregister_custom_meta():
    for table in (metamod._META_SPECS, metamod._META_SPEC_BY_TYPE):
        for key in (0x62, 'verif_custom'):
            table.pop(key, None)

VLQ_EDGES = (0, 0, 0, 1, 127, 128, 16383, 16384, 2097151, 2097152, 268435455)
SMALL_DELTAS = (0, 0, 0, 1, 10, 127, 128, 480)
BOUNDARY_VALUES = (0x00, 0x7F, 0x80, 0xF0, 0xF7, 0xFF)
RT = ('clock', 'start', 'continue', 'stop', 'active_sensing', 'reset')
KEYS = ('C', 'Am', 'Cb', 'Abm', 'C#', 'A#m', 'F', 'Dm', 'G', 'Em', 'F#', 'D#m', 'Gb', 'Ebm', 'B', 'G#m',
        'Db', 'Bbm', 'E', 'C#m', 'Ab', 'Fm', 'A', 'F#m', 'Eb', 'Cm', 'D', 'Bm', 'Bb', 'Gm')
TEXT_METAS = ('text', 'copyright', 'track_name', 'instrument_name', 'lyrics', 'marker', 'cue_marker', 'device_name')
UNKNOWN_TYPES = (0x08, 0x0A, 0x10, 0x22, 0x4B, 0x60, 0x7E)
# characters the charset has no encoding for
UNENCODABLE = {'latin1': ('\u20ac', '\u65e5', '\u0153'), 'cp1252': ('\u65e5', '\u0416', '\x81'),
               'ascii': ('\xe9', '\u20ac', '\x80'), 'shift_jis': ('\u20ac', '\xe9', '\u0153')}


def _edge(rng, lo, hi):
    r = rng.random()
    if r < 0.25:
        return lo
    if r < 0.5:
        return hi
    return rng.randint(lo, hi)


def gen_event(rng, small, big_ok):
    """One storable event spec [kind, ..., delta]."""
    delta = pick(rng, SMALL_DELTAS if small else VLQ_EDGES) if rng.random() < 0.8 else rng.randint(0, 300)
    k = weighted(rng, (('ch', 6), ('common', 1.5), ('sysex', 1.5), ('meta', 4), ('umeta', 1), ('eot', 0.7)))
    if k == 'ch':
        t = pick(rng, ('note_on', 'note_off', 'polytouch', 'control_change', 'program_change', 'aftertouch',
                       'pitchwheel'))
        ch = pick(rng, (0, 0, 1, 15))
        if t in ('note_on', 'note_off'):
            a = {'channel': ch, 'note': _edge(rng, 0, 127), 'velocity': _edge(rng, 0, 127)}
        elif t == 'polytouch':
            a = {'channel': ch, 'note': _edge(rng, 0, 127), 'value': _edge(rng, 0, 127)}
        elif t == 'control_change':
            a = {'channel': ch, 'control': _edge(rng, 0, 127), 'value': _edge(rng, 0, 127)}
        elif t == 'program_change':
            a = {'channel': ch, 'program': _edge(rng, 0, 127)}
        elif t == 'aftertouch':
            a = {'channel': ch, 'value': _edge(rng, 0, 127)}
        else:
            a = {'channel': ch, 'pitch': _edge(rng, -8192, 8191)}
        return ['msg', t, a, delta]
    if k == 'common':
        t = pick(rng, ('quarter_frame', 'songpos', 'song_select', 'tune_request'))
        a = {'quarter_frame': {'frame_type': _edge(rng, 0, 7), 'frame_value': _edge(rng, 0, 15)},
             'songpos': {'pos': _edge(rng, 0, 16383)}, 'song_select': {'song': _edge(rng, 0, 127)},
             'tune_request': {}}[t]
        return ['msg', t, a, delta]
    if k == 'sysex':
        n = pick(rng, (0, 1, 2, 5, 126, 127, 128) if not small else (0, 1, 2, 5))
        if big_ok and rng.random() < 0.03:
            n = pick(rng, (16383, 16384))
        return ['sysex', n, rng.randrange(128), delta]
    if k == 'meta':
        t = pick(rng, ('sequence_number', 'text', 'channel_prefix', 'midi_port', 'set_tempo', 'smpte_offset',
                       'time_signature', 'key_signature', 'sequencer_specific') + TEXT_METAS[1:])
        if t == 'sequence_number':
            a = {'number': _edge(rng, 0, 65535)}
        elif t in TEXT_METAS:
            n = pick(rng, (0, 1, 3, 127, 128) if not small else (0, 1, 3))
            s = ''.join(pick(rng, ('a', 'Z', ' ', 'é', 'ÿ', '\x00', '\x80')) for _ in range(n))
            r = rng.random()
            if r < 0.08:
                # texts that begin with bytes that look like something else: a byte order mark, an end_of_track event
                s = pick(rng, ('ï»¿', 'ï»¿', 'ÿþ', 'þÿ', 'ÿ/\x00', 'ï»')) + s
            elif r < 0.14:
                # texts that are not in composed normal form (stored as they are where the charset can express them)
                s = s[:2] + pick(rng, ('e\u0301', '\u212b', 'A\u030a', '\u2126', '\u1100\u1161')) + s[2:]
            a = {'name' if t in ('track_name', 'instrument_name', 'device_name') else 'text': s}
        elif t == 'channel_prefix':
            a = {'channel': _edge(rng, 0, 255)}
        elif t == 'midi_port':
            a = {'port': _edge(rng, 0, 255)}
        elif t == 'set_tempo':
            a = {'tempo': _edge(rng, 0, 16777215)}
        elif t == 'smpte_offset':
            a = {'frame_rate': pick(rng, (24, 25, 29.97, 30)), 'hours': _edge(rng, 0, 23),
                 'minutes': _edge(rng, 0, 59), 'seconds': _edge(rng, 0, 59), 'frames': _edge(rng, 0, 255),
                 'sub_frames': _edge(rng, 0, 99)}
        elif t == 'time_signature':
            a = {'numerator': _edge(rng, 0, 255), 'denominator': 2 ** pick(rng, (0, 1, 2, 3, 4, 5, 6, 7, 8, 16)),
                 'clocks_per_click': _edge(rng, 0, 255), 'notated_32nd_notes_per_beat': _edge(rng, 0, 255)}
        elif t == 'key_signature':
            a = {'key': pick(rng, KEYS)}
        else:
            a = {'data': [_edge(rng, 0, 255) for _ in range(pick(rng, (0, 1, 3, 127, 128) if not small else (0, 1, 3)))]}
        return ['meta', t, a, delta]
    if k == 'umeta':
        n = pick(rng, (0, 1, 3, 127, 128) if not small else (0, 1, 3))
        return ['umeta', pick(rng, UNKNOWN_TYPES), [_edge(rng, 0, 255) for _ in range(n)], delta]
    return ['eot', delta]


def build(ev):
    k = ev[0]
    if k == 'msg':
        return Message(ev[1], time=ev[3], **ev[2])
    if k == 'sysex':
        return Message('sysex', data=[(ev[2] + i) % 128 for i in range(ev[1])], time=ev[3])
    if k == 'meta':
        a = dict(ev[2])
        if 'data' in a:
            a['data'] = tuple(a['data'])
        return MetaMessage(ev[1], time=ev[3], **a)
    if k == 'umeta':
        return UnknownMetaMessage(ev[1], tuple(ev[2]), time=ev[3])
    if k == 'eot':
        return MetaMessage('end_of_track', time=ev[1])
    if k == 'cmeta':
        return MetaMessage('verif_custom', param=ev[1], time=ev[2])
    if k == 'rt':
        return Message(ev[1], time=ev[2])
    if k == 'badtime':
        m = Message('note_on', note=1)
        vars(m)['time'] = ev[1]
        return m
    if k == 'bad_on':
        m = build(ev[1])
        vars(m)['time'] = ev[2]
        return m
    raise ValueError(k)


def normalise(msgs):
    """Independent statement of what a stored track looks like after loading."""
    out = []
    accum = 0
    for m in msgs:
        if m.is_meta and m.type == 'end_of_track':
            accum += m.time
        else:
            out.append(m.copy(time=m.time + accum) if accum else m)
            accum = 0
    out.append(MetaMessage('end_of_track', time=accum))
    return out


def same_track(a, b):
    if len(a) != len(b):
        return False
    for x, y in zip(a, b):
        try:
            if type(x) is not type(y) or vars(x) != vars(y):
                return False
        except Exception:
            return False
    return True


def unstorable_reason(mf):
    """Content that the statement lists as unstorable, or None."""
    if mf.type == 0 and len(mf.tracks) != 1:
        return 'type 0 with != 1 track'
    for tr in mf.tracks:
        for m in tr:
            if not m.is_meta and m.type in RT:
                return f'real-time message {m.type}'
            t = m.time
            if isinstance(t, bool) or not isinstance(t, int) or t < 0:
                return f'time {t!r}'
    return None


class _NullOut:
    def write(self, s):
        return len(s)

    def flush(self):
        pass


class FileStore(BaseEngine):
    name = 'filestore'

    def tiers(self, prop):
        return {'quick': 60_000, 'thorough': 2_500_000}

    # ------------------------------------------------------------- generation
    def gen(self, prop, seed, idx, tier):
        rng = rng_for(prop, seed, idx, 'plan')
        cfg = weighted(rng, (('roundtrip', 12), ('unstorable', 3), ('stored_faults', 1), ('alt_image', 3)))
        small = cfg == 'stored_faults'
        ftype = pick(rng, (0, 1, 1, 2))
        ntracks = 1 if ftype == 0 else weighted(rng, ((0, 0.5), (1, 3), (2, 3), (3, 1), (4, 0.5)))
        tracks = []
        for _ in range(ntracks):
            tr = []
            run_status = rng.random() < 0.4
            last = None
            for _ in range(rng.randint(0, 5 if small else 12)):
                ev = gen_event(rng, small, big_ok=not small)
                if run_status and last is not None and ev[0] == 'msg' and rng.random() < 0.6 and last[0] == 'msg' \
                        and 'channel' in last[2]:
                    ev = ['msg', last[1], dict(last[2]), ev[3]]      # equal status: triggers running status
                tr.append(ev)
                last = ev
            r = rng.random()
            if r < 0.5:
                tr.append(['eot', pick(rng, SMALL_DELTAS)])
            elif r < 0.6:
                tr.extend([['eot', pick(rng, SMALL_DELTAS)], ['eot', pick(rng, SMALL_DELTAS)]])
            tracks.append(tr)
        plan = {'prop': prop, 'cfg': cfg, 'type': ftype,
                'tpb': pick(rng, (1, 96, 480, 960, 32767)) if rng.random() < 0.92 else
                pick(rng, (32768, 40000, 65535, 66016)),
                'charset': pick(rng, ('latin1', 'latin1', 'latin1', 'utf-8', 'utf-16', 'cp1252')),
                'tracks': tracks, 'via': pick(rng, ('file', 'filename')),
                'saves': pick(rng, (1, 1, 1, 2, 3)), 'merge_edit': rng.random() < 0.15,
                'nested': pick(rng, (None, None, None, None, None, 'ok', 'fail')),
                'prelude': [pick(rng, ('utf-8', 'utf-16', 'cp1252', 'latin1')) for _ in range(rng.randint(1, 2))]
                if rng.random() < 0.2 else []}
        if cfg == 'roundtrip':
            if rng.random() < 0.12 and tracks:
                # the application registered a meta type of its own (add_meta_spec) and uses it
                plan['custom_meta'] = True
                for _ in range(rng.randint(1, 3)):
                    tr = tracks[rng.randrange(len(tracks))]
                    tr.insert(rng.randint(0, len(tr)), ['cmeta', _edge(rng, 0, 255), pick(rng, SMALL_DELTAS)])
            # the file does not start at offset 0 of its stream (it follows a container header or another file)
            plan['offset'] = pick(rng, (0, 0, 0, 0, 8, 12, 300))
            # the sink reports its size: len() == 0, i.e. falsy, while nothing has been written
            plan['sized_sink'] = rng.random() < 0.15
            # the charset is assigned after construction (the attribute in force at the time of the call counts)
            plan['late_charset'] = rng.random() < 0.2
            # a filler sysex puts the second track's chunk header just before / at / after a multiple of 8 KiB
            if len(tracks) >= 2 and rng.random() < 0.12:
                plan['align'] = [pick(rng, (1, 1, 2)), pick(rng, (0, 1, 2, 3, 4, 5, 6, 7, 8))]
            plan['read_cap'] = pick(rng, (0, 0, 16, 50, 100, 4096))
            plan['frozen'] = cfg == 'roundtrip' and rng.random() < 0.15
            plan['debug'] = rng.random() < 0.04
        if cfg == 'alt_image':
            plan['tracks'] = []
            plan['alt'] = self._gen_alt(rng)
        if cfg == 'roundtrip' and rng.random() < 0.25:
            # another file is saved and loaded in the same process between our save and our load
            plan['bystander'] = [[gen_event(rng, True, False) for _ in range(rng.randint(1, 6))]
                                 for _ in range(rng.randint(1, 2))]
        if cfg != 'roundtrip' and plan['tpb'] > 32767:
            plan['tpb'] = 480
        if cfg == 'unstorable':
            kind = weighted(rng, (('rt', 4), ('negative', 2), ('float', 2), ('type0', 2), ('storable_common', 3),
                                  ('unencodable', 2)))
            plan['bad'] = kind
            if not tracks:
                tracks.append([])
                plan['type'] = 1
            tgt = rng.randrange(len(tracks))
            pos = rng.randint(0, len(tracks[tgt]))
            if kind == 'rt':
                tracks[tgt].insert(pos, ['rt', pick(rng, RT), pick(rng, SMALL_DELTAS)])
            elif kind in ('negative', 'float'):
                val = -pick(rng, (1, 2, 4, 128)) if kind == 'negative' else pick(rng, (0.5, 1.0, 1e-9, 3.0))
                if tracks[tgt] and rng.random() < 0.6:
                    # the bad time sits on an existing event of any kind (meta, sysex, end_of_track ...)
                    j = rng.randrange(len(tracks[tgt]))
                    tracks[tgt][j] = ['bad_on', tracks[tgt][j], val]
                else:
                    tracks[tgt].insert(pos, ['badtime', val])
            elif kind == 'unencodable':
                cs = pick(rng, ('latin1', 'latin1', 'cp1252', 'ascii', 'shift_jis'))
                plan['charset'] = cs
                txt = pick(rng, ('a', '', 'xy')) + pick(rng, UNENCODABLE[cs]) + pick(rng, ('', 'b'))
                t = pick(rng, TEXT_METAS)
                tracks[tgt].insert(pos, ['meta', t, {'name' if t in ('track_name', 'instrument_name', 'device_name')
                                                      else 'text': txt}, pick(rng, SMALL_DELTAS)])
            elif kind == 'type0':
                plan['type'] = 0
                if len(tracks) == 1:
                    if rng.random() < 0.5:
                        tracks.append([])
                    else:
                        tracks.pop()
            else:
                t = pick(rng, ('quarter_frame', 'songpos', 'song_select', 'tune_request'))
                a = {'quarter_frame': {'frame_type': 1, 'frame_value': 2}, 'songpos': {'pos': 300},
                     'song_select': {'song': 5}, 'tune_request': {}}[t]
                tracks[tgt].insert(pos, ['msg', t, a, 0])
        if cfg == 'stored_faults':
            plan['multi'] = [[rng.random(), pick(rng, BOUNDARY_VALUES + (rng.randrange(256),))]
                             for _ in range(rng.randint(20, 60))]
            plan['mut'] = None
        return plan

    def _gen_alt(self, rng):
        """Event lists for the independent SMF writer: legal encodings mido's own writer never produces
        (running status, padded variable-length quantities, longer header chunk, F7 escape events, metas
        with unusual payload lengths, unknown metas)."""
        def delta():
            return [pick(rng, VLQ_EDGES) if rng.random() < 0.3 else pick(rng, SMALL_DELTAS), pick(rng, (0, 0, 0, 1, 2))]
        tracks = []
        for _ in range(rng.randint(1, 3)):
            tr = []
            for _ in range(rng.randint(0, 10)):
                r = rng.random()
                if r < 0.5:
                    st = pick(rng, (0x80, 0x90, 0x90, 0x91, 0xA0, 0xB0, 0xC0, 0xD0, 0xE0, 0xEF))
                    n = 1 if (st & 0xF0) in (0xC0, 0xD0) else 2
                    tr.append([delta(), 'midi', st, [_edge(rng, 0, 127) for _ in range(n)], rng.random() < 0.7])
                elif r < 0.58:
                    st = pick(rng, (0xF1, 0xF2, 0xF3, 0xF6))
                    n = {0xF1: 1, 0xF2: 2, 0xF3: 1, 0xF6: 0}[st]
                    tr.append([delta(), 'midi', st, [_edge(rng, 0, 127) for _ in range(n)], False])
                elif r < 0.7:
                    payload = [_edge(rng, 0, 127) for _ in range(pick(rng, (0, 1, 3, 127, 128)))]
                    if rng.random() < 0.7:
                        payload.append(0xF7)
                    tr.append([delta(), 'sysex', pick(rng, (0xF0, 0xF0, 0xF7)), payload, pick(rng, (0, 0, 1))])
                else:
                    mt = pick(rng, (0x00, 0x01, 0x03, 0x20, 0x21, 0x2F, 0x51, 0x54, 0x58, 0x59, 0x7F, 0x0A, 0x60))
                    ln = {0x00: pick(rng, (0, 2, 3)), 0x20: pick(rng, (1, 2)), 0x21: pick(rng, (0, 1, 2)),
                          0x2F: pick(rng, (0, 0, 1)), 0x51: pick(rng, (3, 4)), 0x54: pick(rng, (5, 6)),
                          0x58: pick(rng, (4, 5)), 0x59: pick(rng, (2, 3))}.get(mt, pick(rng, (0, 1, 4, 127, 128)))
                    payload = [_edge(rng, 0, 255) for _ in range(ln)]
                    if mt == 0x54 and payload:
                        payload[0] = (pick(rng, (0, 1, 2, 3)) << 5) | rng.randrange(24)
                    if mt == 0x59 and len(payload) >= 2:
                        payload[0] = rng.randint(-7, 7) & 0xFF
                        payload[1] = rng.randrange(2)
                    if mt == 0x58 and len(payload) >= 2:
                        payload[1] = pick(rng, (0, 1, 2, 3, 7, 8, 29, 31, 47, 63, 64, 127, 200, 255))
                    tr.append([delta(), 'meta', mt, payload, pick(rng, (0, 0, 1))])
            if rng.random() < 0.8:
                tr.append([delta(), 'meta', 0x2F, [], 0])
            tracks.append(tr)
        return {'type': pick(rng, (0, 1, 1, 2)) if len(tracks) == 1 else pick(rng, (1, 1, 2)),
                'division': pick(rng, (1, 96, 480, 32767, 0xE250)), 'tracks': tracks,
                'header_extra': [0] * pick(rng, (0, 0, 2, 4)), 'declared_short': rng.random() < 0.1}

    # ------------------------------------------------------------- execution
    def abort_cleanup(self):
        mfmod.__dict__.pop('open', None)

    def run(self, prop, plan, keep_log=False):
        _vc = simtime.VClock(5000.0)
        simtime.activate(_vc.read, _vc.sleep)
        try:
            return self._run_inner(prop, plan, keep_log)
        finally:
            simtime.deactivate()

    def _run_inner(self, prop, plan, keep_log=False):
        log = Log(keep_log)
        stats = collections.Counter()
        cov = set()
        viol = None
        final = None
        self._stats = stats
        log.ev('plan', plan['cfg'], plan['type'], plan['tpb'], repr(plan['tracks']), repr(plan.get('mut')))
        try:
            try:
                cfg = plan['cfg']
                stats['cfg:' + cfg] += 1
                if cfg == 'roundtrip':
                    self._roundtrip(plan, log, stats, cov)
                elif cfg == 'unstorable':
                    self._unstorable(plan, log, stats, cov)
                elif cfg == 'alt_image':
                    self._alt_image(plan, log, stats, cov)
                else:
                    self._stored_faults(plan, log, stats, cov)
            except Violation as v:
                viol = {'sig': v.sig, 'msg': v.msg}
                final = getattr(v, 'final_plan', None)
                log.ev('VIOLATION', v.sig)
        finally:
            self.abort_cleanup()
            unregister_custom_meta()
        nontrivial = stats.pop('_nontrivial', 0) > 0
        out = {'viol': viol, 'digest': log.digest(), 'nontrivial': nontrivial, 'stats': stats, 'cov': cov,
               'events': log.events, 'sim_s': 0.0}
        if final is not None:
            out['final_plan'] = final
        return out

    def _charset(self, plan):
        """The charset the judged file uses: the planned one if every text of the plan survives it, else latin1."""
        cs = plan.get('charset', 'latin1')
        if plan.get('bad') == 'unencodable':
            return cs
        return self._fit_charset(plan['tracks'], (cs, 'latin1', 'utf-8') if plan.get('cfg') == 'roundtrip'
                                 else ('latin1', 'utf-8'))

    @staticmethod
    def _fit_charset(tracks, candidates):
        """The first of the candidate charsets that can express every text of these event lists."""
        texts = [v for tr in tracks for e in tr if e[0] == 'meta' and isinstance(e[2], dict)
                 for v in e[2].values() if isinstance(v, str)]
        for cand in candidates:
            try:
                if all(t.encode(cand).decode(cand) == t for t in texts):
                    return cand
            except UnicodeError:
                continue
        return 'utf-8'

    def _mk(self, plan):
        if plan.get('custom_meta'):
            register_custom_meta()
            self._stats['fault:application_defined_meta_type'] += 1
        if plan.get('late_charset'):
            mf = MidiFile(type=plan['type'] if plan['type'] in (0, 1, 2) else 1, ticks_per_beat=plan['tpb'],
                          charset='cp437')
            mf.charset = self._charset(plan)
            self._stats['fault:charset_assigned_after_construction'] += 1
        else:
            mf = MidiFile(type=plan['type'] if plan['type'] in (0, 1, 2) else 1, ticks_per_beat=plan['tpb'],
                          charset=self._charset(plan))
        for tr in plan['tracks']:
            if plan.get('frozen'):
                mf.tracks.append(MidiTrack(freeze_message(build(e)) for e in tr))
            else:
                mf.tracks.append(MidiTrack(build(e) for e in tr))
        return mf

    def _align_second_track(self, mf, align, stats):
        """Insert a filler sysex at the start of track 0 so that the chunk header of track 1 starts `j` bytes before
        the k-th multiple of 8192 (readers that work in blocks meet a multi-byte read across the block edge)."""
        k, j = align
        try:
            probe = self._save(mf, 'file', simdisk.SimDisk(), name='probe.mid')
        except Exception:
            return
        second_at = 22 + int.from_bytes(probe[18:22], 'big')
        need = 8192 * k - j - second_at
        for vl in (1, 2, 3):
            n = need - 3 - vl               # delta(1) + F0(1) + length prefix(vl) + n data bytes + F7(1)
            if n >= 0 and len(simdisk.enc_vlq(n + 1)) == vl:
                mf.tracks[0].insert(0, Message('sysex', data=[(i * 7) % 128 for i in range(n)], time=0))
                stats['fault:second_track_header_near_8k_boundary'] += 1
                return

    def _save(self, mf, via, disk, name='f.mid', offset=0, sized=False):
        if via != 'filename' and (offset or sized):
            h = disk.handle(name, 'wb', sized=sized)
            if offset:
                h.write(bytes((0x52 + i) & 0xFF for i in range(offset)))
            mf.save(file=h)
            return bytes(disk.files[name][offset:])
        if via == 'filename':
            mfmod.__dict__['open'] = disk.open
            try:
                mf.save(filename=name)
            finally:
                mfmod.__dict__.pop('open', None)
        else:
            h = disk.handle(name, 'wb')
            mf.save(file=h)
        return bytes(disk.files[name])

    def _load(self, image, via, disk, name='g.mid', charset='latin1', read_cap=0, debug=False, stats=None,
              offset=0):
        if via == 'filename':
            offset = 0
        disk.files[name] = bytearray(bytes((0x4D + 7 * i) & 0xFF for i in range(offset)) + bytes(image))
        fault = {'read_cap': read_cap} if read_cap else None
        kw = {'debug': True} if debug else {}
        old_out = sys.stdout
        if debug:
            sys.stdout = _NullOut()        # debug=True prints every byte read
        try:
            if via == 'filename':
                mfmod.__dict__['open'] = disk.open
                disk.next_fault = fault
                try:
                    return MidiFile(filename=name, charset=charset, **kw)
                finally:
                    mfmod.__dict__.pop('open', None)
            h = disk.handle(name, 'rb', fault)
            if offset:
                h.seek(offset)          # positioned at the start of the MIDI data
            return MidiFile(file=h, charset=charset, **kw)
        finally:
            sys.stdout = old_out
            if stats is not None:
                if read_cap:
                    stats['fault:read_size_capped'] += 1
                    stats['short_reads_taken'] += sum(h.short_reads for h in disk.handles if h.name == name)
                if debug:
                    stats['fault:load_with_debug_output'] += 1

    def _probe_image(self, image, stats):
        """Reach probes measured on the stored bytes with the independent walker."""
        try:
            _, _, _, tracks = simdisk.walk_smf(image)
        except simdisk.SMFError:
            return
        data = bytes(image)
        for tr in tracks:
            prev = None
            for delta, kind, a, b in tr:
                if delta >= 16384:
                    stats['probe:vlq_3_bytes'] += 1
                if delta >= 2097152:
                    stats['probe:vlq_4_bytes'] += 1
                if kind in ('meta', 'sysex') and len(b) >= 128:
                    stats['probe:payload_len_128'] += 1
                if kind in ('meta', 'sysex') and prev == 'midi':
                    stats['probe:running_status_broken_by_meta'] += 1
                prev = kind
        # running status emitted: fewer status bytes than channel events
        n_events = sum(1 for tr in tracks for e in tr if e[1] == 'midi' and e[2] < 0xF0)
        n_status = 0
        for tr in tracks:
            pass
        if n_events and self._count_channel_status_bytes(data, tracks) < n_events:
            stats['probe:running_status_emitted'] += 1

    def _count_channel_status_bytes(self, data, tracks):
        # re-walk counting explicit status bytes (cheap: walker semantics duplicated for the count only)
        count = 0
        pos = 8 + int.from_bytes(data[4:8], 'big')
        for _ in tracks:
            tlen = int.from_bytes(data[pos + 4:pos + 8], 'big')
            p = pos + 8
            end = p + tlen
            while p < end:
                while data[p] & 0x80:
                    p += 1
                p += 1
                st = data[p]
                if st == 0xFF:
                    ln, p2 = simdisk._vlq(data, p + 2)
                    p = p2 + ln
                elif st in (0xF0, 0xF7):
                    ln, p2 = simdisk._vlq(data, p + 1)
                    p = p2 + ln
                else:
                    if st >= 0x80:
                        if st < 0xF0:
                            count += 1
                        status = st
                        p += 1
                        self._rs = status
                    else:
                        status = self._rs
                    hi = status & 0xF0
                    p += 1 if (hi in (0xC0, 0xD0) or status in (0xF1, 0xF3)) else (0 if status in (0xF6,) else 2)
            pos = end
        return count

    def _roundtrip(self, plan, log, stats, cov):
        disk = simdisk.SimDisk()
        for cs in plan.get('prelude', []):
            # other files with the same content were saved earlier in this process under another charset
            try:
                other = self._mk(plan)
                other.charset = cs
                self._save(other, 'file', disk, name='other.mid')
                stats['fault:earlier_save_other_charset'] += 1
            except Exception:
                pass
        mf = self._mk(plan)
        if plan.get('align') and len(mf.tracks) >= 2:
            self._align_second_track(mf, plan['align'], stats)
        model = [normalise([thaw_message(m) for m in tr]) for tr in mf.tracks]
        if plan.get('frozen'):
            stats['fault:frozen_messages_in_tracks'] += 1
        if plan.get('merge_edit') and not plan.get('frozen'):
            # the user took a merged copy of the tracks earlier and edited that copy in place
            try:
                from mido import merge_tracks
                mt = merge_tracks(mf.tracks)
                for m in mt:
                    m.time = m.time + 480
                if len(mt):
                    mt[-1].time = 480
                stats['fault:merged_copy_edited_earlier'] += 1
            except Exception:
                pass
        if plan.get('nested') and mf.tracks:
            # while our file is being written the application loads another file (another charset); that inner
            # call may fail - either way the rest of our file must be written as if nothing had happened
            from .charset import LazyTrack
            inner = MidiFile(type=1, charset='utf-16')
            inner.tracks.append(MidiTrack([MetaMessage('text', text='in', time=0)]))
            idisk = simdisk.SimDisk()
            inner.save(file=idisk.handle('inner.mid', 'wb'))
            iimg = bytes(idisk.files['inner.mid'])
            fail = plan['nested'] == 'fail'

            def nested_call(iimg=iimg, fail=fail):
                try:
                    MidiFile(file=simdisk.SimDisk().handle_from(iimg[:len(iimg) - (3 if fail else 0)]), charset='utf-16')
                except Exception:
                    pass
            lt = LazyTrack(mf.tracks[0])
            lt.nested = {'at': len(lt) // 2, 'fn': nested_call}
            mf.tracks[0] = lt
            stats['fault:nested_call'] += 1
        try:
            for _ in range(max(1, plan.get('saves', 1))):
                image = self._save(mf, plan['via'], disk, offset=plan.get('offset', 0), sized=plan.get('sized_sink', False))
            if plan['via'] != 'filename':
                if plan.get('offset'):
                    stats['fault:file_not_at_offset_0'] += 1
                if plan.get('sized_sink'):
                    stats['fault:sink_with_len'] += 1
            if plan.get('saves', 1) > 1:
                stats['probe:same_object_saved_again'] += 1
        except Exception as e:
            if not 0 < plan['tpb'] <= 32767:
                stats['tpb_out_of_range_refused'] += 1      # not a storable header value: refusing it is fine
                return
            raise Violation(f'roundtrip:save-raised:{type(e).__name__}',
                            f'saving storable content raised {type(e).__name__}: {e}')
        if plan.get('bystander'):
            bcs = self._fit_charset(plan['bystander'], ('latin1', 'utf-8'))
            other = MidiFile(type=1, ticks_per_beat=96, charset=bcs)
            for tr in plan['bystander']:
                other.tracks.append(MidiTrack(build(e) for e in tr))
            omodel = [normalise([m.copy() for m in tr]) for tr in other.tracks]
            try:
                oimg = self._save(other, 'file', disk, name='by.mid')
                oback = self._load(oimg, 'file', disk, name='by2.mid', charset=bcs)
            except Exception as e:
                raise Violation(f'roundtrip:bystander-raised:{type(e).__name__}',
                                f'saving/loading a second, unrelated file in between raised {type(e).__name__}: {e}')
            if len(oback.tracks) != len(omodel) or not all(same_track(list(a), b) for a, b in zip(oback.tracks, omodel)):
                raise Violation('roundtrip:bystander-differs', f'a second, unrelated file saved and loaded between our save '
                                                               f'and our load came back as {[list(t) for t in oback.tracks]!r}, '
                                                               f'expected {omodel!r}')
            stats['fault:other_file_in_between'] += 1
        try:
            back = self._load(image, plan['via'], disk, charset=self._charset(plan), read_cap=plan.get('read_cap', 0),
                              debug=plan.get('debug', False), stats=stats, offset=plan.get('offset', 0))
        except Exception as e:
            raise Violation(f'roundtrip:load-raised:{type(e).__name__}',
                            f'loading the image just saved raised {type(e).__name__}: {e} '
                            f'(image {image[:80].hex(" ")}...)')
        log.ev('roundtrip', len(image), len(back.tracks))
        if back.type != mf.type or back.ticks_per_beat != mf.ticks_per_beat or len(back.tracks) != len(mf.tracks):
            raise Violation('roundtrip:header', f'type/ticks_per_beat/tracks {mf.type}/{mf.ticks_per_beat}/'
                                                f'{len(mf.tracks)} came back as {back.type}/{back.ticks_per_beat}/'
                                                f'{len(back.tracks)}')
        for i, (got, exp) in enumerate(zip(back.tracks, model)):
            if not same_track(list(got), exp):
                j = next((k for k, (x, y) in enumerate(zip(got, exp)) if type(x) is not type(y) or vars(x) != vars(y)),
                         min(len(got), len(exp)))
                raise Violation('roundtrip:track-differs',
                                f'track {i}, message #{j}: loaded {got[j] if j < len(got) else None!r}, expected '
                                f'{exp[j] if j < len(exp) else None!r} (loaded {len(got)} messages, expected {len(exp)})')
        # the same image loaded with clip=True: nothing in it needs clipping, so it must load to the same tracks
        try:
            disk.files['c.mid'] = bytearray(image)
            clipped = MidiFile(file=disk.handle('c.mid', 'rb'), charset=self._charset(plan), clip=True)
        except Exception as e:
            raise Violation(f'roundtrip:load-raised:{type(e).__name__}', f'loading the image with clip=True raised {e!r}')
        if len(clipped.tracks) != len(model) or not all(same_track(list(a), b) for a, b in zip(clipped.tracks, model)):
            raise Violation('roundtrip:track-differs', f'the image loaded with clip=True (no data byte above 127 in it) '
                                                       f'gives {[list(t) for t in clipped.tracks]!r}, expected {model!r}')
        if any(e[0] == 'eot' for tr in plan['tracks'] for e in tr[:-1]):
            stats['probe:eot_folded_into_next'] += 1
        self._probe_image(image, stats)
        if disk.unclosed() and plan['via'] == 'filename':
            stats['handles_left_open'] += 1
        cov.add(f'roundtrip|t{plan["type"]}|n{len(plan["tracks"])}|{plan["via"]}')
        if any(plan['tracks']):
            stats['_nontrivial'] += 1

    def _unstorable(self, plan, log, stats, cov):
        disk = simdisk.SimDisk()
        mf = self._mk(plan)
        if plan.get('bad') == 'type0':
            mf.type = 0
        why = unstorable_reason(mf)
        if plan.get('bad') == 'unencodable' and why is None:
            # a text the file's charset cannot express: refusing it is fine, storing it faithfully would be fine,
            # writing a file that loads with another text is not
            model = [normalise([m.copy() for m in tr]) for tr in mf.tracks]
            stats['fault:unstorable_unencodable'] += 1
            stats['_nontrivial'] += 1
            cov.add('unstorable|unencodable')
            try:
                image = self._save(mf, plan['via'], disk)
            except Exception as e:
                log.ev('unencodable', type(e).__name__)
                stats['probe:unencodable_text_refused'] += 1
                return
            try:
                back = self._load(image, plan['via'], disk, charset=self._charset(plan))
            except Exception as e:
                raise Violation('unstorable:saved-unloadable', f'save accepted a text that {self._charset(plan)} cannot '
                                                               f'encode and the file does not load: {e!r}')
            if len(back.tracks) != len(model) or not all(same_track(list(a), b) for a, b in zip(back.tracks, model)):
                raise Violation('unstorable:saved-differently', f'save accepted a text that {self._charset(plan)} cannot '
                                                                f'encode and wrote a file that loads differently: '
                                                                f'{[list(t) for t in back.tracks]!r}, expected {model!r}')
            log.ev('unencodable', 'stored')
            return
        try:
            image = self._save(mf, plan['via'], disk)
            outcome = 'saved'
        except ValueError as e:
            outcome = 'ValueError'
            err = e
        except Exception as e:
            raise Violation(f'unstorable:wrong-exception:{type(e).__name__}',
                            f'save of content with {why} raised {type(e).__name__}: {e}, expected ValueError')
        log.ev('unstorable', plan.get('bad'), why, outcome)
        stats['fault:unstorable_' + str(plan.get('bad'))] += 1
        if why is None:
            if outcome != 'saved':
                raise Violation('storable-refused', f'save refused content that the property lists as storable: {err}')
            stats['storable_common_accepted'] += 1
        else:
            if outcome == 'saved':
                # did it at least load back the same? either way the statement asks for ValueError
                raise Violation('unstorable:saved', f'save accepted content with {why} (wrote {len(image)} bytes) '
                                                    f'instead of raising ValueError')
        cov.add(f'unstorable|{plan.get("bad")}')
        stats['_nontrivial'] += 1

    def _alt_image(self, plan, log, stats, cov):
        alt = plan['alt']
        tracks = [[(tuple(e[0]),) + tuple(e[1:]) for e in tr] for tr in alt['tracks']]
        image = simdisk.write_smf(alt['type'], alt['division'], tracks, bytes(alt['header_extra']),
                                  declared_tracks=max(0, len(tracks) - 1) if alt['declared_short'] else None)
        disk = simdisk.SimDisk()
        stats['steps'] += 1
        before = stats['probe:mutation_still_loads']
        self._fixed_point(image, disk, stats)
        loaded = stats['probe:mutation_still_loads'] > before
        stats['probe:mutation_still_loads'] = before
        stats['alt_image_loaded' if loaded else 'alt_image_load_raised'] += 1
        if loaded:
            stats['probe:alt_encoding_image_loaded'] += 1
            if any(e[1] == 'midi' and e[4] for tr in alt['tracks'] for e in tr):
                stats['probe:alt_running_status'] += 1
            if any(e[0][1] for tr in alt['tracks'] for e in tr):
                stats['probe:alt_padded_vlq'] += 1
        log.ev('alt_image', len(image), loaded)
        cov.add(f'alt_image|t{alt["type"]}|{"loaded" if loaded else "raised"}')
        stats['_nontrivial'] += 1

    def _mutations(self, plan, image):
        n = len(image)
        if plan.get('mut') is not None:
            yield plan['mut']
            return
        for k in range(n):
            yield ['trunc', k]
        for i in range(n):
            for v in BOUNDARY_VALUES:
                if image[i] != v:
                    yield ['set', i, v]
        muts = plan.get('multi', [])
        for a in range(0, len(muts) - 1, 2):
            yield ['multi', [[int(muts[a][0] * n), muts[a][1]], [int(muts[a + 1][0] * n), muts[a + 1][1]]]]
        yield ['tail', [0x00, 0xFF, 0x2F]]

    def _apply(self, image, mut):
        b = bytearray(image)
        if mut[0] == 'trunc':
            return bytes(b[:mut[1]])
        if mut[0] == 'set':
            if mut[1] < len(b):
                b[mut[1]] = mut[2]
            return bytes(b)
        if mut[0] == 'multi':
            for i, v in mut[1]:
                if i < len(b):
                    b[i] = v
            return bytes(b)
        return bytes(b) + bytes(mut[1])

    def _stored_faults(self, plan, log, stats, cov):
        disk = simdisk.SimDisk()
        mf = self._mk(plan)
        try:
            image = self._save(mf, 'file', disk)
        except Exception as e:
            raise Violation(f'roundtrip:save-raised:{type(e).__name__}', f'saving storable content raised {e!r}')
        if len(image) > 400:
            stats['image_too_big_skipped'] += 1
            return
        for mut in self._mutations(plan, image):
            damaged = self._apply(image, mut)
            stats['fault:stored_' + mut[0]] += 1
            stats['steps'] += 1
            try:
                self._fixed_point(damaged, disk, stats)
            except Violation as v:
                fp = dict(plan)
                fp['mut'] = mut
                v.final_plan = fp
                raise
        log.ev('stored_faults', len(image))
        cov.add(f'stored_faults|t{plan["type"]}')
        stats['_nontrivial'] += 1

    def _fixed_point(self, damaged, disk, stats):
        try:
            l1 = self._load(damaged, 'file', disk)
        except Exception:
            stats['mutation_load_raised'] += 1
            return                       # nothing is claimed about images that do not load
        stats['probe:mutation_still_loads'] += 1
        try:
            model = [normalise(list(tr)) for tr in l1.tracks]
        except Exception:
            model = None
        why = unstorable_reason(l1)
        try:
            img2 = self._save(l1, 'file', disk, name='h.mid')
        except ValueError as e:
            if why is None:
                raise Violation('fixedpoint:save-refused-loaded-content',
                                f'an image loaded fine but saving what was loaded raised ValueError: {e} '
                                f'(image {damaged.hex(" ")})')
            stats['fixedpoint_unstorable_refused'] += 1
            return
        except Exception as e:
            raise Violation(f'fixedpoint:save-raised:{type(e).__name__}',
                            f'an image loaded fine but saving what was loaded raised {type(e).__name__}: {e} '
                            f'(image {damaged.hex(" ")})')
        try:
            l2 = self._load(img2, 'file', disk, name='i.mid')
        except Exception as e:
            raise Violation(f'fixedpoint:reload-raised:{type(e).__name__}',
                            f'load-save-load: the re-saved image does not load: {type(e).__name__}: {e} '
                            f'(original image {damaged.hex(" ")})')
        ok = (l2.type == l1.type and l2.ticks_per_beat == l1.ticks_per_beat and len(l2.tracks) == len(l1.tracks)
              and model is not None and all(same_track(list(a), b) for a, b in zip(l2.tracks, model)))
        if not ok:
            raise Violation('fixedpoint:differs',
                            f'load-save-load is not a fixed point: first load {[list(t) for t in l1.tracks]!r} '
                            f'(type {l1.type}, tpb {l1.ticks_per_beat}), after save+load '
                            f'{[list(t) for t in l2.tracks]!r} (type {l2.type}, tpb {l2.ticks_per_beat}); '
                            f'image {damaged.hex(" ")}')
        if model is not None and any(not same_track(list(a), list(b)) for a, b in zip(l1.tracks, l2.tracks)):
            stats['probe:mutation_changes_content'] += 1

    # ------------------------------------------------------------- shrinking
    def shrink(self, prop, plan):
        if plan['cfg'] == 'alt_image':
            if len(plan['alt']['tracks']) > 1:
                yield from shrink_list_at(plan, ('alt', 'tracks'), min_len=1)
            for i in range(len(plan['alt']['tracks'])):
                yield from shrink_list_at(plan, ('alt', 'tracks', i))
            if plan['alt']['header_extra']:
                yield replace_at(plan, ('alt', 'header_extra'), [])
            for i, tr in enumerate(plan['alt']['tracks']):
                for j, e in enumerate(tr):
                    if e[0] != [0, 0]:
                        yield replace_at(plan, ('alt', 'tracks', i, j, 0), [0, 0])
                    if e[1] == 'midi' and e[4]:
                        yield replace_at(plan, ('alt', 'tracks', i, j, 4), False)
            return
        if plan['cfg'] != 'unstorable' or plan.get('bad') != 'type0':
            if len(plan['tracks']) > 1 and plan['type'] != 0:
                yield from shrink_list_at(plan, ('tracks',), min_len=1)
        for i in range(len(plan['tracks'])):
            yield from shrink_list_at(plan, ('tracks', i))
        if plan['via'] != 'file':
            yield replace_at(plan, ('via',), 'file')
        if plan.get('prelude'):
            yield replace_at(plan, ('prelude',), [])
        if plan.get('merge_edit'):
            yield replace_at(plan, ('merge_edit',), False)
        if plan.get('nested'):
            yield replace_at(plan, ('nested',), None)
        if plan.get('bystander'):
            c = dict(plan)
            c.pop('bystander')
            yield c
        if plan.get('saves', 1) > 1:
            yield replace_at(plan, ('saves',), plan['saves'] - 1)
        if plan['tpb'] != 480 and plan['tpb'] <= 32767:
            yield replace_at(plan, ('tpb',), 480)
        if plan.get('charset', 'latin1') != 'latin1':
            yield replace_at(plan, ('charset',), 'latin1')
        for i, tr in enumerate(plan['tracks']):
            for j, e in enumerate(tr):
                if e[0] in ('msg', 'meta', 'sysex', 'umeta') and e[-1] != 0:
                    yield replace_at(plan, ('tracks', i, j, len(e) - 1), 0)
                if e[0] == 'sysex' and e[1] > 0:
                    yield replace_at(plan, ('tracks', i, j, 1), e[1] // 2)
                if e[0] == 'umeta' and e[2]:
                    yield replace_at(plan, ('tracks', i, j, 2), e[2][:len(e[2]) // 2])

    def rule(self, prop):
        return ('Each run is one of three configurations. roundtrip: a generated file (types 0/1/2, 0-4 tracks, channel '
                'messages with runs of equal status, system common, sysex payloads 0..16384, every known meta type with '
                'boundary values, unknown metas, end_of_track missing/repeated/in the middle, deltas at every VLQ size '
                'boundary) saved to and loaded from simulated storage through file= or filename= and compared with an '
                'independent normalisation of the model. unstorable: one unstorable element (each real-time type, '
                'negative or float time, type 0 with 0 or 2 tracks) or one storable system-common message planted at a '
                'random position. stored_faults: for one small image EVERY single-byte at-rest fault (truncate at each '
                'offset, each byte overwritten with 6 boundary values) plus multi-byte damage; whatever still loads '
                'must be a fixed point of load-save-load. Non-trivial = non-empty content.')

    def coverage_report(self, prop, cov):
        return {'config_cells_hit': len(cov), 'cells': sorted(cov)[:60]}

    def components(self, prop):
        return {'real': ['MidiFile.save/_save/__init__/_load', 'write_track/write_chunk/read_track/read_message/'
                         'read_sysex/read_meta_message/read_variable_int/read_file_header',
                         'mido.midifiles.meta (encode/decode of every meta type, UnknownMetaMessage, '
                         'encode_variable_int)', 'mido.midifiles.tracks.fix_end_of_track',
                         'mido.messages (is_realtime, bytes, from_bytes)'],
                'stub': ['file objects / open() -> simkit.simdisk', 'at-rest byte faults on the stored image'],
                'not_run': ['real file system']}

    def assumptions(self, prop):
        return ['Text metas use the default latin1 charset here (charsets are C17).',
                'sequencer_specific data is given as a tuple (a list would compare unequal to the loaded tuple; that '
                'representation detail is not judged).', 'smpte_offset hours are kept within 0..23 (what the format '
                'can hold); the wider documented domain belongs to C09.',
                'If a damaged image does not load, nothing is claimed about it.',
                'Write-path I/O errors are not judged here (the statement says nothing about them; C17 injects them).']

    def probe_names(self, prop):
        return ['running_status_emitted', 'running_status_broken_by_meta', 'vlq_3_bytes', 'vlq_4_bytes',
                'payload_len_128', 'eot_folded_into_next', 'mutation_still_loads', 'mutation_changes_content',
                'alt_encoding_image_loaded', 'alt_running_status', 'alt_padded_vlq', 'same_object_saved_again']


ENGINE = FileStore()
