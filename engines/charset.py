"""Engine `charset` - load/save with a charset on simulated storage, every failure point of the
call visited, followed by a process-wide probe (DESIGN 3: C17).

Real code: MidiFile._load/_save/save/__init__, meta_charset, encode_string/decode_string,
MetaMessage.bytes/from_bytes, read_*/write_* helpers. Stubs: the file objects (simkit.simdisk)
and - for the filename= paths - the `open` name looked up by mido.midifiles.midifiles.
"""
import collections

from simkit import bootstrap
from simkit import simtime
from simkit.choice import rng_for, Log, pick, weighted
from simkit import simdisk
from simkit.shrink import shrink_list_at, replace_at
from . import BaseEngine, Violation

mido = bootstrap()
import mido.midifiles.midifiles as mfmod  # noqa: E402
from mido import MidiFile, MidiTrack, MetaMessage, Message  # noqa: E402

CHARSETS = ('latin1', 'ascii', 'utf-8', 'cp1252', 'shift_jis', 'utf-16', 'utf-16-le', 'utf-32', 'koi8_r', 'cp037',
            'utf-16-be', 'utf-32-le', 'utf-7', 'iso2022_jp', 'cp500', 'euc_jp', 'utf8', 'UTF-16', 'sjis',
            'gb2312', 'big5', 'euc_kr')
POOL = ['A', 'z', ' ', '0', '~', 'é', 'ü', 'ß', 'Ø', ' ', '€', 'я', 'Ж', 'あ', '漢', 'ｱ', '𝄞', '\u0080']
TEXT_TYPES = {'text': ('text', 1), 'copyright': ('text', 2), 'track_name': ('name', 3),
              'instrument_name': ('name', 4), 'lyrics': ('text', 5), 'marker': ('text', 6),
              'cue_marker': ('text', 7), 'device_name': ('name', 9)}
SAVE_FAULTS = ('float_time', 'negative_time', 'realtime', 'unencodable', 'type0_two_tracks', 'unknown_charset')
LOAD_FAULTS = ('bad_data_byte', 'undecodable', 'bad_keysig', 'bad_header', 'garbage_tail', 'unknown_charset')


_REPERTOIRE = {}


def repertoire(cs):
    """Every character of the Basic Multilingual Plane that the charset encodes and decodes back (sorted; computed
    once per process and charset)."""
    rep = _REPERTOIRE.get(cs)
    if rep is None:
        rep = []
        for cp in range(0x20, 0x10000):
            if 0xD800 <= cp < 0xE000:
                continue
            ch = chr(cp)
            try:
                if ch.encode(cs).decode(cs) == ch:
                    rep.append(ch)
            except (UnicodeError, LookupError):
                pass
        _REPERTOIRE[cs] = rep
    return rep


def pad_to_encoded_length(t, cs, target):
    """t extended with 'A's until its encoding is exactly `target` bytes long, or None when that cannot be hit."""
    try:
        for _ in range(target + 1):
            n = len(t.encode(cs))
            if n == target:
                return t if t.encode(cs).decode(cs) == t else None
            if n > target:
                return None
            t += 'A' * max(1, (target - n) // 4)
    except (UnicodeError, LookupError):
        pass
    return None


def gen_text(rng, cs, maxlen=6):
    out = []
    r0 = rng.random()
    if r0 < 0.3:
        # characters from anywhere in the charset's repertoire, not only the familiar ones
        rep = repertoire(cs)
        if rep:
            out = [rep[rng.randrange(len(rep))] for _ in range(rng.randint(1, 2 * maxlen))]
    else:
        for _ in range(rng.randint(0, maxlen)):
            ch = pick(rng, POOL)
            try:
                if ch.encode(cs).decode(cs) == ch:
                    out.append(ch)
            except (UnicodeError, LookupError):
                pass
    t = ''.join(out)
    if r0 > 0.96:
        # encoded payload lengths at the sizes where the length prefix grows (the 16383/16384 step is C07's)
        padded = pad_to_encoded_length(t, cs, pick(rng, (127, 128, 128, 129, 255, 256)))
        if padded is not None:
            return padded
    r = rng.random()
    if r < 0.12:
        # texts whose encoded form begins or ends with bytes that look like something else: a byte order mark,
        # NUL, a MIDI status byte
        t = pick(rng, ('\ufeff', 'ï»¿', 'ÿþ', 'þÿ', '\x00', 'ÿ/\x00')) + t
    elif r < 0.15 and rng.random() < 0.5:
        # texts that other tools read as directives (RP-026 code set tags, karaoke control words)
        t = pick(rng, ('{@JP}', '{@LATIN}', '{@JP}', '@KMIDI KARAOKE FILE', '\\', '/'))
    elif r < 0.2:
        t = t + pick(rng, ('\x00', '\ufeff', 'ÿ', '÷'))
    try:
        if t.encode(cs).decode(cs) != t:
            return ''.join(out) if ''.join(out).encode(cs).decode(cs) == ''.join(out) else ''
    except UnicodeError:
        try:
            t = ''.join(out)
            return t if t.encode(cs).decode(cs) == t else ''
        except UnicodeError:
            return ''
    return t


def build_file(content, charset):
    if content.get('late_charset'):
        # the charset in force is the attribute at the time of the call, not the constructor argument
        mf = MidiFile(type=content['type'], ticks_per_beat=content['tpb'], charset='cp437')
        mf.charset = charset
    elif content.get('ctor_tracks'):
        mf = None
    else:
        mf = MidiFile(type=content['type'], ticks_per_beat=content['tpb'], charset=charset)
    built = []
    for tr in content['tracks']:
        t = MidiTrack()
        for ev in tr:
            k = ev[0]
            if k == 'text':
                attr = TEXT_TYPES[ev[1]][0]
                t.append(MetaMessage(ev[1], time=ev[3], **{attr: ev[2]}))
            elif k == 'note':
                t.append(Message('note_on', note=ev[1], time=ev[2]))
            elif k == 'keysig':
                t.append(MetaMessage('key_signature', key=ev[1], time=ev[2]))
            elif k == 'raw':
                t.append(ev[1])
        built.append(t)
    if mf is None:
        # the tracks are handed to the constructor together with the charset
        return MidiFile(type=content['type'], ticks_per_beat=content['tpb'], tracks=built, charset=charset)
    mf.tracks.extend(built)
    return mf


def pick_inner(cs, plan):
    """Charset of the call nested inside the outer one: sometimes the default, sometimes another one."""
    n = len(str(plan.get('content')))
    if n % 3 == 0 and cs not in ('latin1',):
        return 'latin1'
    return 'utf-16' if cs not in ('utf-16', 'UTF-16') else 'utf-8'


class LazyTrack(MidiTrack):
    """A track that, while it is being written, makes the application load another file (with another charset):
    a call nested inside a call. When the inner call ends, the outer call's charset must be in force again."""
    nested = None

    def __iter__(self):
        for i, m in enumerate(list.__iter__(self)):
            if self.nested is not None and i == self.nested['at']:
                self.nested['fn']()
            yield m


def texts_of(mf):
    out = []
    for tr in mf.tracks:
        for m in tr:
            if m.is_meta and m.type in TEXT_TYPES:
                out.append((m.type, getattr(m, TEXT_TYPES[m.type][0])))
    return out


class Charset(BaseEngine):
    name = 'charset'

    def level(self, prop):
        return 'fault_enumeration'

    def tiers(self, prop):
        return {'quick': 60_000, 'thorough': 1_200_000}

    # --------------------------------------------------------------- generation
    def gen_content(self, rng, cs, pool=()):
        tracks = []
        for _ in range(rng.randint(1, 2)):
            tr = []
            for _ in range(rng.randint(1, 4)):
                r = rng.random()
                if r < 0.6:
                    t = gen_text(rng, cs)
                    if pool and rng.random() < 0.7:
                        cand = pick(rng, pool)
                        try:
                            if cand.encode(cs).decode(cs) == cand:
                                t = cand
                        except UnicodeError:
                            pass
                    tr.append(['text', pick(rng, sorted(TEXT_TYPES)), t, pick(rng, (0, 1, 200))])
                elif r < 0.9:
                    tr.append(['note', rng.randrange(128), pick(rng, (0, 10, 128))])
                else:
                    tr.append(['keysig', pick(rng, ('C', 'F#m', 'Cb')), 0])
            tracks.append(tr)
        how = weighted(rng, (('plain', 6), ('late', 2), ('tracks', 2)))
        return {'type': 1, 'tpb': pick(rng, (96, 480)), 'tracks': tracks, 'late_charset': how == 'late',
                'ctor_tracks': how == 'tracks'}

    def gen(self, prop, seed, idx, tier):
        rng = rng_for(prop, seed, idx, 'plan')
        cs = pick(rng, CHARSETS)
        direction = weighted(rng, (('load', 3), ('save', 3), ('chain', 4)))
        plan = {'prop': prop, 'charset': cs, 'content': self.gen_content(rng, cs), 'direction': direction,
                'via': pick(rng, ('file', 'filename')),
                'nested': pick(rng, (None, None, None, 'ok', 'fail')),
                'read_cap': pick(rng, (0, 0, 0, 16, 40, 4096)), 'in_thread': rng.random() < 0.1}
        if idx % 400 == 77:
            # one long text whose encoded length sits where the length prefix grows to three bytes: fault-free
            # round trip only (the failure-point sweep over such a file is C07-sized work)
            cs2 = pick(rng, ('latin1', 'utf-8', 'utf-16', 'shift_jis', 'cp1252'))
            base = pick(rng, ('', 'é', 'あ', 'xy')) if cs2 not in ('latin1', 'cp1252') else pick(rng, ('', 'é', 'xy'))
            txt = pad_to_encoded_length(base, cs2, pick(rng, (16383, 16384, 16385, 16500, 32768)))
            if txt is not None:
                plan.update({'charset': cs2, 'direction': 'save', 'big': True, 'nested': None,
                             'content': {'type': 1, 'tpb': 96, 'late_charset': False, 'ctor_tracks': False,
                                         'tracks': [[['text', pick(rng, sorted(TEXT_TYPES)), txt, 0],
                                                     ['note', 60, 10]]]}})
        if direction == 'chain' and not plan.get('big'):
            calls = []
            pool = [''.join(pick(rng, POOL[:10]) for _ in range(rng.randint(1, 3))) for _ in range(3)]
            for _ in range(rng.randint(2, 6)):
                ccs = pick(rng, CHARSETS)
                d = pick(rng, ('load', 'save'))
                fk = weighted(rng, (('none', 3), ('io', 3), ('semantic', 3)))
                calls.append({'charset': ccs, 'dir': d, 'fault': fk, 'where': rng.randrange(1000),
                              'sem': pick(rng, LOAD_FAULTS if d == 'load' else SAVE_FAULTS),
                              'content': self.gen_content(rng, ccs, pool), 'via': pick(rng, ('file', 'filename'))})
            plan['calls'] = calls
            plan['probe_each'] = rng.random() < 0.6
        return plan

    # --------------------------------------------------------------- plumbing
    def abort_cleanup(self):
        mfmod.__dict__.pop('open', None)

    def run(self, prop, plan, keep_log=False):
        _vc = simtime.VClock(5000.0)
        simtime.activate(_vc.read, _vc.sleep)
        try:
            if plan.get('in_thread'):
                # the application does its file work in a worker thread (one thread, run to completion while the
                # main thread waits: no interleaving, but not the thread that imported the library)
                import threading
                box = {}

                def work():
                    try:
                        box['out'] = self._run_inner(prop, plan, keep_log)
                    except BaseException as e:      # noqa: B036 - handed to the waiting thread
                        box['exc'] = e
                t = threading.Thread(target=work, name='verif-worker')
                t.start()
                t.join()
                if 'exc' in box:
                    raise box['exc']
                box['out']['stats']['fault:calls_made_in_a_worker_thread'] += 1
                return box['out']
            return self._run_inner(prop, plan, keep_log)
        finally:
            simtime.deactivate()

    def _run_inner(self, prop, plan, keep_log=False):
        log = Log(keep_log)
        stats = collections.Counter()
        cov = set()
        viol = None
        log.ev('plan', plan['charset'], plan['direction'], repr(plan.get('content')), repr(plan.get('calls')),
               plan.get('read_cap', 0))
        self._read_cap = plan.get('read_cap', 0)
        if self._read_cap:
            stats['fault:read_size_capped'] += 1
        try:
            try:
                if plan['direction'] == 'chain':
                    self._chain(plan, log, stats, cov)
                else:
                    self._sweep(plan, log, stats, cov)
            except Violation as v:
                viol = {'sig': v.sig, 'msg': v.msg}
                log.ev('VIOLATION', v.sig)
        finally:
            self.abort_cleanup()
            self._heal()
        nontrivial = stats.pop('_nontrivial', 0) > 0
        return {'viol': viol, 'digest': log.digest(), 'nontrivial': nontrivial, 'stats': stats, 'cov': cov,
                'events': log.events, 'sim_s': 0.0}

    def _heal(self):
        """After a run that found a leak, put the process back so that the next run starts clean
        (runs must be independent; the leak itself has been reported)."""
        import mido.midifiles.meta as meta
        if getattr(meta, '_charset', 'latin1') != 'latin1':
            meta._charset = 'latin1'

    # --------------------------------------------------------------- the probe
    def probe(self, where, stats, texts=()):
        """Meta text encoded/decoded elsewhere in the process must use latin1 again - for fixed
        discriminating texts and for the very texts the preceding call handled."""
        stats['probes_run'] += 1
        checks = []
        try:
            for t in texts:
                try:
                    raw = list(t.encode('latin1'))
                except UnicodeError:
                    continue
                if len(raw) > 127:
                    continue
                checks.append((f'encode {t!r}', MetaMessage('marker', text=t).bytes(), [0xFF, 0x06, len(raw)] + raw))
                checks.append((f'decode {bytes(raw)!r}', MetaMessage.from_bytes([0xFF, 0x05, len(raw)] + raw).text,
                               bytes(raw).decode('latin1')))
            checks.append(('encode é', MetaMessage('text', text='é').bytes(), [0xFF, 0x01, 0x01, 0xE9]))
            checks.append(('encode A', MetaMessage('track_name', name='A').bytes(), [0xFF, 0x03, 0x01, 0x41]))
            checks.append(('decode E9', MetaMessage.from_bytes([0xFF, 0x01, 0x01, 0xE9]).text, 'é'))
            checks.append(('decode 80', MetaMessage.from_bytes([0xFF, 0x05, 0x01, 0x80]).text, '\x80'))
            checks.append(('decode 41', MetaMessage.from_bytes([0xFF, 0x06, 0x01, 0x41]).text, 'A'))
        except Exception as e:
            raise Violation(f'charset-leak@{where.split("[")[0]}:{where.split("] ")[-1] if "] " in where else "ok"}',
                            f'after {where}: a plain MetaMessage text encode/decode raised '
                                                     f'{type(e).__name__}: {e} (default latin1 would not)')
        for what, got, exp in checks:
            if got != exp:
                raise Violation(f'charset-leak@{where.split("[")[0]}:{where.split("] ")[-1] if "] " in where else "ok"}',
                                f'after {where}: {what} gave {got!r}, latin1 gives {exp!r}')

    # --------------------------------------------------------------- single calls
    def do_save(self, mf, disk, via, fault=None):
        """Returns ('ok', image) or ('raised', exc)."""
        try:
            if via == 'filename':
                disk.next_fault = fault
                mfmod.__dict__['open'] = disk.open
                try:
                    mf.save(filename='out.mid')
                finally:
                    mfmod.__dict__.pop('open', None)
            else:
                h = disk.handle('out.mid', 'wb', fault)
                mf.save(file=h)
            return 'ok', bytes(disk.files['out.mid'])
        except Exception as e:
            return 'raised', e

    def do_load(self, image, cs, disk, via, fault=None, default_charset=False, clip=False):
        disk.files['in.mid'] = bytearray(image)
        cap = getattr(self, '_read_cap', 0)
        if cap:
            fault = dict(fault or {}, read_cap=cap)     # a stream that hands out at most `cap` bytes per read
        kw = {} if default_charset else {'charset': cs}
        if clip:
            kw['clip'] = True
        try:
            if via == 'filename':
                disk.next_fault = fault
                mfmod.__dict__['open'] = disk.open
                try:
                    mf = MidiFile(filename='in.mid', **kw)
                finally:
                    mfmod.__dict__.pop('open', None)
            else:
                h = disk.handle('in.mid', 'rb', fault)
                mf = MidiFile(file=h, **kw)
            return 'ok', mf
        except Exception as e:
            return 'raised', e

    def semantic_save_fault(self, mf, kind, cs):
        """Damage an in-memory file so that save must fail somewhere inside the call."""
        tr = mf.tracks[-1]
        if kind == 'float_time':
            tr.append(Message('note_on', time=0.5))
        elif kind == 'negative_time':
            tr.insert(len(tr) // 2, Message('note_on', time=-1))
        elif kind == 'realtime':
            tr.append(Message('clock'))
        elif kind == 'unencodable':
            bad = {'latin1': 'あ', 'ascii': 'é', 'cp1252': 'あ', 'shift_jis': 'é', 'koi8_r': 'é', 'cp037': 'あ'}
            tr.append(MetaMessage('marker', text=bad.get(cs, '\ud800')))
        elif kind == 'type0_two_tracks':
            mf.type = 0
            while len(mf.tracks) < 2:
                mf.tracks.append(MidiTrack())
        elif kind == 'unknown_charset':
            mf.charset = 'utf-88'
            if not any(m.is_meta and m.type in TEXT_TYPES for tr in mf.tracks for m in tr):
                tr.append(MetaMessage('marker', text='x'))
        return mf

    def semantic_load_fault(self, image, kind, cs):
        img = bytearray(image)
        if kind == 'bad_data_byte':
            img += b'MTrk' + (4).to_bytes(4, 'big') + bytes([0x00, 0x90, 0x40, 0xF5])
            img[10:12] = (int.from_bytes(img[10:12], 'big') + 1).to_bytes(2, 'big')
        elif kind == 'undecodable':
            payload = {'ascii': b'\xe9', 'utf-8': b'\xe9', 'shift_jis': b'\x81', 'utf-16': b'\xff\xfe\x00',
                       'utf-16-le': b'\x41', 'utf-32': b'\x41\x00'}.get(cs, b'\xe9')
            ev = bytes([0x00, 0xFF, 0x01, len(payload)]) + payload
            img += b'MTrk' + len(ev).to_bytes(4, 'big') + ev
            img[10:12] = (int.from_bytes(img[10:12], 'big') + 1).to_bytes(2, 'big')
        elif kind == 'bad_keysig':
            ev = bytes([0x00, 0xFF, 0x59, 0x02, 0x08, 0x00])
            img += b'MTrk' + len(ev).to_bytes(4, 'big') + ev
            img[10:12] = (int.from_bytes(img[10:12], 'big') + 1).to_bytes(2, 'big')
        elif kind == 'bad_header':
            img[0:4] = b'RIFF'
        elif kind == 'garbage_tail':
            img[10:12] = (int.from_bytes(img[10:12], 'big') + 1).to_bytes(2, 'big')
            img += b'JUNKJUNK'
        return bytes(img)

    # --------------------------------------------------------------- sweep of every failure point
    def _sweep(self, plan, log, stats, cov):
        cs = plan['charset']
        via = plan['via']
        disk = simdisk.SimDisk()
        self.probe('start', stats)
        mf = build_file(plan['content'], cs)
        want = texts_of(mf)
        tag, image = self.do_save(mf, disk, via)
        if tag != 'ok':
            raise Violation('save-raised', f'saving storable content with charset {cs} raised {image!r}')
        own = [t for _, t in want]
        self.probe(f'save[{cs}]', stats, own)
        # (1) fault-free round trip and bytes in the file
        try:
            _, _, _, wtracks = simdisk.walk_smf(image)
        except simdisk.SMFError as e:
            raise Violation('image-not-smf', f'independent SMF walker cannot read the saved image: {e}')
        payloads = [(mt, bytes(p)) for tr in wtracks for (_, kind, mt, p) in tr
                    if kind == 'meta' and mt in {v[1] for v in TEXT_TYPES.values()}]
        expect = [(TEXT_TYPES[t][1], s.encode(cs)) for t, s in want]
        if payloads != expect:
            raise Violation('payload-bytes', f'charset {cs}: text payloads in the file are {payloads!r}, the texts '
                                             f'encoded in that charset are {expect!r}')
        tag, back = self.do_load(image, cs, disk, via)
        if tag != 'ok':
            raise Violation('load-raised', f'loading the image just saved with charset {cs} raised {back!r}')
        if texts_of(back) != want:
            raise Violation('text-roundtrip', f'charset {cs}: texts {want!r} came back as {texts_of(back)!r}')
        self.probe(f'load[{cs}]', stats, own)
        tag, back2 = self.do_load(image, cs, disk, via, clip=True)
        if tag != 'ok' or texts_of(back2) != want:
            raise Violation('text-roundtrip', f'charset {cs}, load with clip=True: texts {want!r} came back as '
                                              f'{texts_of(back2) if tag == "ok" else back2!r}')
        if cs in ('utf-16', 'utf-32') and any(s for _, s in want):
            stats['probe:utf16_bom_roundtrip'] += 1
        # the file object used as a context manager: inside the block the load has returned, the default is in force
        try:
            with back as inside:
                self.probe(f'load[{cs}] then-inside-with-block', stats, own)
                tag2, img2 = self.do_save(inside, disk, via)
                self.probe(f'save[{cs}] then-inside-with-block', stats, own)
        except Violation:
            raise
        except Exception as e:
            raise Violation('with-block-raised', f'using the loaded MidiFile as a context manager raised {e!r}')
        if plan.get('big'):
            stats['fault:text_of_16k_encoded_bytes'] += 1
            stats['_nontrivial'] += 1
            cov.add(f'big|{cs}')
            return
        # the charset belongs to the load/save call only: not to an iteration of the loaded file that is under way
        for how in ('iter', 'play'):
            try:
                it = iter(back) if how == 'iter' else back.play(meta_messages=True, now=lambda: 0.0)
                next(it, None)
            except Exception:
                it = None
            self.probe(f'load[{cs}] then-suspended-{how}', stats, own)
            if it is not None and hasattr(it, 'close'):
                it.close()
        stats['probe:probe_during_suspended_iteration'] += 1
        if plan.get('nested') and want:
            # a load with another charset happens in the middle of our save (nested call)
            inner_cs = pick_inner(cs, plan)
            inner = MidiFile(type=1, charset=inner_cs)
            inner.tracks.append(MidiTrack([MetaMessage('text', text='iné', time=0)]))
            _, inner_img = self.do_save(inner, simdisk.SimDisk(), 'file')
            mf2 = build_file(plan['content'], cs)
            inner_seen = []

            def nested_call(inner_img=inner_img, inner_cs=inner_cs, fail=plan['nested'] == 'fail'):
                try:
                    kw = {} if inner_cs == 'latin1' else {'charset': inner_cs}
                    got = MidiFile(file=simdisk.SimDisk().handle_from(inner_img[:len(inner_img) - (3 if fail else 0)]),
                                   **kw)
                    inner_seen.append(texts_of(got))
                except Exception:
                    pass
            for ti, tr in enumerate(mf2.tracks):
                lt = LazyTrack(tr)
                lt.nested = {'at': len(tr) // 2, 'fn': nested_call}
                mf2.tracks[ti] = lt
                break
            tag2, image2 = self.do_save(mf2, disk, 'file')
            if tag2 != 'ok':
                raise Violation('save-raised', f'saving with charset {cs} while a nested load ran in between raised '
                                               f'{image2!r}')
            _, _, _, w2 = simdisk.walk_smf(image2)
            payloads2 = [(mt, bytes(p)) for tr in w2 for (_, kind, mt, p) in tr
                         if kind == 'meta' and mt in {v[1] for v in TEXT_TYPES.values()}]
            if payloads2 != expect:
                raise Violation('payload-bytes', f'charset {cs}, with a load in charset {inner_cs} nested inside the save: '
                                                 f'payloads {payloads2!r}, expected {expect!r}')
            if inner_seen and inner_seen[0] != [('text', 'iné')]:
                raise Violation('text-roundtrip', f'a file in charset {inner_cs} loaded while a save in charset {cs} was in '
                                                  f'progress gave texts {inner_seen[0]!r}')
            self.probe(f'save[{cs}] nested', stats, own)
            stats['fault:nested_call'] += 1
        stats['roundtrips'] += 1
        # default-charset load of a latin1 image behaves as latin1 (part of the probe family)
        # (2) every failure point
        outcomes = collections.Counter()
        if plan['direction'] == 'load':
            for k in range(len(image)):
                tag, res = self.do_load(image, cs, disk, via, fault={'eof_at': k})
                outcomes[f'truncate:{tag}:{type(res).__name__ if tag == "raised" else ""}'] += 1
                stats['fault:truncated_at_byte'] += 1
                self.probe(f'load[{cs}] truncated', stats)
                if tag == 'raised':
                    stats['probe:failed_load_then_probe'] += 1
            h = disk.handle('in.mid', 'rb')
            disk.files['in.mid'] = bytearray(image)
            try:
                MidiFile(file=h, charset=cs)
            except Exception:
                pass
            nreads = h.reads
            for i in range(nreads):
                tag, res = self.do_load(image, cs, disk, via, fault={'fail_read_at': i})
                outcomes[f'read-error:{tag}'] += 1
                stats['fault:read_oserror'] += 1
                self.probe(f'load[{cs}] read error', stats)
            for kind in LOAD_FAULTS:
                tag, res = self.do_load(self.semantic_load_fault(image, kind, cs),
                                        'utf-88' if kind == 'unknown_charset' else cs, disk, via)
                outcomes[f'{kind}:{tag}:{type(res).__name__ if tag == "raised" else ""}'] += 1
                stats['fault:' + kind] += 1
                self.probe(f'load[{cs}] {kind}', stats)
                if tag == 'raised':
                    stats['probe:failed_load_then_probe'] += 1
        else:
            h = disk.handle('out.mid', 'wb')
            try:
                build_file(plan['content'], cs).save(file=h)
            except Exception as e:
                raise Violation('save-raised', f'saving the same storable content with charset {cs} a second time raised '
                                               f'{e!r}')
            nwrites = h.writes
            for i in range(nwrites):
                for keep in (0, 1):
                    fault = {'fail_write_at': (i, keep, simdisk.ENOSPC if keep else simdisk.EIO)}
                    tag, res = self.do_save(build_file(plan['content'], cs), disk, via, fault=fault)
                    outcomes[f'write-error:{tag}'] += 1
                    stats['fault:write_oserror_torn' if keep else 'fault:write_oserror'] += 1
                    self.probe(f'save[{cs}] write error', stats)
                    if tag == 'raised':
                        stats['probe:failed_save_then_probe'] += 1
            for kind in SAVE_FAULTS:
                bad = self.semantic_save_fault(build_file(plan['content'], cs), kind, cs)
                tag, res = self.do_save(bad, disk, via)
                outcomes[f'{kind}:{tag}:{type(res).__name__ if tag == "raised" else ""}'] += 1
                stats['fault:' + kind] += 1
                self.probe(f'save[{cs}] {kind}', stats)
                if tag == 'raised':
                    stats['probe:failed_save_then_probe'] += 1
        for k, v in outcomes.items():
            stats['outcome:' + k] += v
        log.ev('sweep', plan['direction'], cs, len(image), sorted(outcomes.items()))
        cov.add(f'{plan["direction"]}|{cs}|{via}')
        stats['_nontrivial'] += 1

    # --------------------------------------------------------------- chained histories
    def _chain(self, plan, log, stats, cov):
        disk = simdisk.SimDisk()
        self.probe('start', stats)
        failed_before = False
        for ci, c in enumerate(plan['calls']):
            cs = c['charset']
            mf = build_file(c['content'], cs)
            fault = None
            if c['dir'] == 'save':
                if c['fault'] == 'io':
                    fault = {'fail_write_at': (c['where'] % 12, c['where'] % 2, simdisk.ENOSPC)}
                    stats['fault:write_oserror'] += 1
                elif c['fault'] == 'semantic':
                    mf = self.semantic_save_fault(mf, c['sem'], cs)
                    stats['fault:' + c['sem']] += 1
                tag, res = self.do_save(mf, disk, c['via'], fault=fault)
            else:
                t0, image = self.do_save(mf, disk, 'file')
                if t0 != 'ok':
                    raise Violation('save-raised', f'saving storable content with charset {cs} raised {image!r}')
                if c['fault'] == 'io':
                    if c['where'] % 2:
                        fault = {'eof_at': c['where'] % max(1, len(image))}
                        stats['fault:truncated_at_byte'] += 1
                    else:
                        fault = {'fail_read_at': c['where'] % 20}
                        stats['fault:read_oserror'] += 1
                elif c['fault'] == 'semantic':
                    image = self.semantic_load_fault(image, c['sem'], cs)
                    stats['fault:' + c['sem']] += 1
                tag, res = self.do_load(image, 'utf-88' if (c['fault'] == 'semantic' and c['sem'] == 'unknown_charset')
                                        else cs, disk, c['via'], fault=fault,
                                        default_charset=(cs == 'latin1' and c['where'] % 3 == 0))
            log.ev('call', ci, c['dir'], cs, c['fault'], tag, type(res).__name__ if tag == 'raised' else '')
            own = [t for _, t in texts_of(build_file(c['content'], cs))]
            if c['dir'] == 'save' and tag == 'ok' and c['fault'] == 'none':
                try:
                    _, _, _, wtracks = simdisk.walk_smf(res)
                except simdisk.SMFError as e:
                    raise Violation('image-not-smf', f'independent SMF walker cannot read the saved image: {e}')
                payloads = [bytes(p) for tr in wtracks for (_, kind, mt, p) in tr
                            if kind == 'meta' and mt in {v[1] for v in TEXT_TYPES.values()}]
                expect = [t.encode(cs) for t in own]
                if payloads != expect:
                    raise Violation('payload-bytes', f'call {ci}: charset {cs}: text payloads in the file are '
                                                     f'{payloads!r}, the texts encoded in that charset are {expect!r}')
            if plan['probe_each']:
                self.probe(f'{c["dir"]}[{cs}] {c["fault"]}', stats, own)
            elif failed_before and tag == 'ok':
                stats['probe:leak_visible_only_after_next_call'] += 1
            if tag == 'raised':
                failed_before = True
                stats['probe:failed_load_then_probe' if c['dir'] == 'load' else 'probe:failed_save_then_probe'] += 1
        self.probe('end of history', stats)
        cov.add('chain')
        stats['_nontrivial'] += 1

    # --------------------------------------------------------------- shrinking
    def shrink(self, prop, plan):
        if plan['direction'] == 'chain':
            yield from shrink_list_at(plan, ('calls',), min_len=1)
            for i, c in enumerate(plan['calls']):
                if c['fault'] != 'none':
                    yield replace_at(plan, ('calls', i, 'fault'), 'none')
                for j in range(len(c['content']['tracks'])):
                    yield from shrink_list_at(plan, ('calls', i, 'content', 'tracks', j))
                if c['via'] != 'file':
                    yield replace_at(plan, ('calls', i, 'via'), 'file')
            if not plan['probe_each']:
                yield replace_at(plan, ('probe_each',), True)
        else:
            if len(plan['content']['tracks']) > 1:
                yield from shrink_list_at(plan, ('content', 'tracks'), min_len=1)
            for j in range(len(plan['content']['tracks'])):
                yield from shrink_list_at(plan, ('content', 'tracks', j))
            if plan['via'] != 'file':
                yield replace_at(plan, ('via',), 'file')

    def same_signature(self, a, b):
        return a.split('@')[0] == b.split('@')[0]

    def rule(self, prop):
        return ('Each run is one case: a generated file with text metas drawn from strings the codec itself round-trips, '
                'a charset from 10, and a direction. load/save cases visit EVERY failure point of the call - '
                'truncation after each byte of the image, OSError at each read call, OSError (plain and torn) at each '
                'write call, and semantic failures (bad data byte, undecodable text, bad key signature, bad header, '
                'missing track; float/negative time, real-time message, unencodable text, type 0 with two tracks) - each '
                'followed by the process-wide latin1 probe; chain cases run 2-6 calls with mixed charsets and faults '
                'with the probe after each call or only at the end. Non-trivial = every case (each performs at least '
                'one faulted call).')

    def coverage_report(self, prop, cov):
        return {'direction_x_charset_x_seam_cells_hit': len(cov), 'of': 2 * len(CHARSETS) * 2 + 1}

    def components(self, prop):
        return {'real': ['MidiFile.__init__/_load/save/_save', 'mido.midifiles.meta: meta_charset, encode_string, '
                         'decode_string, MetaMessage.bytes/from_bytes, build_meta_message',
                         'read_track/read_message/read_meta_message/write_track/write_chunk'],
                'stub': ['file objects and open() -> simkit.simdisk (EOF at byte k, OSError at call i, torn writes)'],
                'not_run': []}

    def assumptions(self, prop):
        return ['Texts are restricted to strings for which Python\'s codec satisfies t.encode(cs).decode(cs) == t, so '
                'a codec quirk is never blamed on mido.',
                'Which exception a failed call raises is recorded (outcome histogram) but not judged.',
                'The failure-point sweep is complete per sampled case; cases are sampled.']

    def probe_names(self, prop):
        return ['failed_load_then_probe', 'failed_save_then_probe', 'leak_visible_only_after_next_call',
                'utf16_bom_roundtrip', 'probe_during_suspended_iteration']


ENGINE = Charset()
