"""Engine `lifecycle` - single-threaded discrete-event simulation of one caller, a device on a
virtual clock and a fault plan (DESIGN 3: C11).

Real code: mido.ports (BasePort.close/__exit__/__del__, BaseInput.receive/poll/iter_pending/
__iter__, BaseOutput.send/reset/panic, IOPort, EchoPort, MultiPort, multi_receive, sleep).
Doubles: the device below _send/_receive/_close, time.sleep (virtual clock), random.shuffle.
"""
import collections
import gc
import math

from simkit import bootstrap
from simkit.choice import rng_for, Log, pick, weighted
from simkit.sched import SimAbort
from simkit import simtime
from simkit.shrink import shrink_list_at, replace_at
from . import BaseEngine, Violation
from .ports_conc import make_msg as _make_msg, ident, mutate

mido = bootstrap()
import mido.ports as mports  # noqa: E402
from mido.frozen import freeze_message  # noqa: E402

KINDS = ('dev_io', 'dev_in', 'dev_out', 'echo', 'ioport', 'multi')
STYLES = ('old', 'new', 'blocking', 'bytewise')
SHAPES = ('note_on', 'control_change', 'program_change', 'pitchwheel', 'sysex', 'songpos')
RESET = [('control_change', ch, c) for ch in range(16) for c in (123, 121)]
PANIC = [('control_change', ch, 120) for ch in range(16)]


class Clock:
    def __init__(self, start, sleep_time):
        self.now = start
        self.start = start
        self.sleep_time = sleep_time
        self.sleep_calls = 0
        self.horizon = start
        self.last_event = start

    def arm(self):
        self.horizon = max(self.last_event, self.now) + 50 * self.sleep_time


class TimeShim:
    def __init__(self, clock):
        self.clock = clock

    def sleep(self, d):
        c = self.clock
        c.sleep_calls += 1
        c.now += max(0.0, d)
        if c.now > c.horizon:
            raise SimAbort()

    def time(self):
        return self.clock.now


class RandomShim:
    def __init__(self, perms):
        self.perms = list(perms)
        self.n = 0

    def shuffle(self, lst):
        if not self.perms:
            return
        k = self.perms[self.n % len(self.perms)] + (self.n // len(self.perms))   # fair: every rotation comes up
        self.n += 1
        if len(lst) > 1 and k % len(lst):
            k %= len(lst)
            lst[:] = lst[k:] + lst[:k]


def make_msg(shape, sender, seq, pad):
    if shape == 'sysex0':
        return mido.Message('sysex', data=())       # a sysex without payload: two bytes on the wire
    return _make_msg(shape, sender, seq, pad)


class Device:
    """What the harness knows about one simulated device (kept apart from the port object)."""
    def __init__(self, clock, sub, spec, log):
        self.clock = clock
        self.sub = sub
        self.style = spec.get('style', 'old')
        self.log = log
        t = clock.start
        self.arrivals = []      # (time, bytes, msg or None)
        seq = 0
        for dt, shape, pad in spec.get('arrivals', []):
            t += dt
            if shape == 'split_sysex':
                # one sysex delivered in three pieces with a real-time byte in the middle piece: the clock is
                # complete (and deliverable) before the sysex is
                m = make_msg('sysex', sub, seq, pad)
                enc = list(m.bytes())
                cut = max(1, min(len(enc) - 1, 1 + pad % max(1, len(enc) - 1)))
                rt = mido.Message('clock')
                self.arrivals.append((t, enc[:cut], None))
                self.arrivals.append((t + 0.002, [0xF8], rt))
                self.arrivals.append((t + 0.004, enc[cut:], m))
                self.rt_inside = True
                t += 0.004
            else:
                m = make_msg(shape, sub, seq, pad)
                self.arrivals.append((t, list(m.bytes()), m))
            seq += 1
        self.hangup = None
        h = spec.get('hangup')
        if h is not None:
            k = min(h[0], len(self.arrivals))
            base = self.arrivals[k - 1][0] if k > 0 else clock.start
            self.hangup = base + h[1]
            # arrivals after the hang-up never happen; an optional partial message right before it
            self.arrivals = [a for a in self.arrivals if a[0] <= self.hangup]
            if spec.get('partial'):
                frag = list(make_msg('note_on', sub, 99, 1).bytes())[:spec['partial']]
                self.arrivals.append((self.hangup, frag, None))
        for a in self.arrivals:
            clock.last_event = max(clock.last_event, a[0])
        if self.hangup is not None:
            clock.last_event = max(clock.last_event, self.hangup)
        self.rt_inside = getattr(self, 'rt_inside', False)
        self.next = 0           # index of next arrival not yet handed to the port
        self.hung = False
        self.close_calls = 0
        self.sent = []          # every message given to _send, in order
        self.sent_at_close = None
        self.send_calls = 0
        self.send_fail = set(spec.get('send_fail', []))
        self.recv_fail = set(spec.get('recv_fail', []))
        self.hangup_raises = bool(spec.get('hangup_raises'))
        self.recv_calls = 0
        self.recv_failed_now = False
        self.recv_blocking_calls = 0
        self.hung_before_close = False

    def complete_taken(self):
        """Messages whose last byte has been handed to the port."""
        return [m for (_, _, m) in self.arrivals[:self.next] if m is not None]

    def pending_now(self):
        return any(a[0] <= self.clock.now for a in self.arrivals[self.next:])

    def next_event_time(self):
        ts = [a[0] for a in self.arrivals[self.next:]]
        if self.hangup is not None and not self.hung:
            ts.append(self.hangup)
        return min(ts) if ts else None

    def next_message_time(self):
        ts = [a[0] for a in self.arrivals[self.next:] if a[2] is not None]
        return min(ts) if ts else None

    # called from the port double
    def on_send(self, msg):
        i = self.send_calls
        self.send_calls += 1
        if i in self.send_fail:
            self.log.ev('dev-send-fails', self.sub, i)
            raise OSError(5, 'simulated device write error')
        self.sent.append(msg)

    def on_receive(self, port, block):
        c = self.clock
        i = self.recv_calls
        self.recv_calls += 1
        if i in self.recv_fail:
            self.recv_failed_now = True
            self.log.ev('dev-read-fails', self.sub, i)
            raise OSError(5, 'simulated device read error')
        if block:
            self.recv_blocking_calls += 1
        if self.style == 'blocking' and block and not self.pending_now() and \
                not (self.hangup is not None and c.now >= self.hangup):
            t = self.next_event_time()
            if t is None:
                raise SimAbort()        # a device read that blocks forever
            c.now = max(c.now, t)
        data = []
        while self.next < len(self.arrivals) and self.arrivals[self.next][0] <= c.now:
            data.extend(self.arrivals[self.next][1])
            self.next += 1
        if data:
            if self.style == 'bytewise':
                for b in data:
                    port._parser.feed_byte(b)
            else:
                port._parser.feed(data)
        if self.hangup is not None and c.now >= self.hangup and not self.hung:
            self.hung = True
            self.log.ev('dev-hangup', self.sub, round(c.now - c.start, 6))
            port.close()
            if self.hangup_raises and not data:
                # the device reports the lost connection as an error after the port has been closed
                self.recv_failed_now = True
                raise ConnectionResetError(104, 'Connection reset by peer')
        if self.style != 'old':
            return port._parser.get_message()

    def on_close(self):
        self.close_calls += 1
        if self.sent_at_close is None:
            self.sent_at_close = len(self.sent)


class DevIO(mports.BaseIOPort):
    def _open(self, dev=None, **kw):
        self.dev = dev

    def _send(self, msg):
        self.dev.on_send(msg)

    def _receive(self, block=True):
        return self.dev.on_receive(self, block)

    def _close(self):
        self.dev.on_close()


class DevIn(mports.BaseInput):
    _open = DevIO._open
    _receive = DevIO._receive
    _close = DevIO._close


class DevOut(mports.BaseOutput):
    _open = DevIO._open
    _send = DevIO._send
    _close = DevIO._close


class DevOutSend(mports.BaseOutput):
    """Shaped after mido.backends.rtmidi.Output and amidi.Output: the port overrides send() itself."""
    _open = DevIO._open
    _close = DevIO._close

    def send(self, msg):
        if self.closed:
            raise ValueError('send() called on closed port')
        with self._lock:
            self.dev.on_send(msg.copy())


class BodyError(Exception):
    pass


class Lifecycle(BaseEngine):
    name = 'lifecycle'

    def tiers(self, prop):
        return {'quick': 300_000, 'thorough': 8_000_000}

    # ---------------------------------------------------------------- generation
    def _gen_dev(self, rng, can_hang=True, split_ok=True):
        spec = {'style': pick(rng, STYLES), 'arrivals': []}
        for _ in range(weighted(rng, ((0, 1), (1, 2), (2, 3), (3, 2), (5, 1)))):
            spec['arrivals'].append([pick(rng, (0.0, 0.0, 0.0005, 0.003, 0.25, rng.random())),
                                     pick(rng, SHAPES + (('split_sysex', 'sysex0') if split_ok else ())), rng.randrange(128)])
        if can_hang and rng.random() < 0.45:
            n = len(spec['arrivals'])
            spec['hangup'] = [rng.randint(0, n), pick(rng, (0.0, 0.0, 0.001, 0.02, 0.3))]
            if rng.random() < 0.3:
                spec['partial'] = rng.randint(1, 2)
            if rng.random() < 0.25:
                spec['hangup_raises'] = True
        if rng.random() < 0.12:
            spec['recv_fail'] = sorted({rng.randrange(8) for _ in range(rng.randint(1, 2))})
        r = rng.random()
        if r < 0.15:
            spec['send_fail'] = [rng.randrange(40)]
        elif r < 0.2:
            spec['send_fail'] = sorted({rng.randrange(40) for _ in range(3)})
        return spec

    def _netsim(self):
        from .netsim import ENGINE as NS
        return NS

    def gen(self, prop, seed, idx, tier):
        if idx % 8 == 5:
            # socket ports are port types too: one run in eight is a history of the network world (engine netsim),
            # judged by that world's rules for iteration, closing and blocking calls
            plan = self._netsim().gen(prop, seed, idx // 8, tier)      # every residue of the network world's own cycle
            plan['addresses'] = False
            return plan
        rng = rng_for(prop, seed, idx, 'plan')
        kind = pick(rng, [k for k in KINDS if k not in self.avoid])
        plan = {'prop': prop, 'kind': kind, 'autoreset': rng.random() < 0.4,
                'sleep_time': pick(rng, (1e-4, 1e-3, 1e-2, 0.5)), 'start_time': pick(rng, (0.0, 100.0, 1.7e9)),
                'perms': [rng.randrange(3) for _ in range(4)], 'yield_ports': rng.random() < 0.3,
                'consumer_mutates': rng.random() < 0.3, 'bystander': rng.random() < 0.25,
                'epilogue': rng.random() < 0.3}
        if kind == 'multi':
            n = rng.randint(1, 3)
            plan['subs'] = [{'kind': 'dev_io', 'dev': self._gen_dev(rng, split_ok=False)} for _ in range(n)]
            plan['ports_arg'] = pick(rng, ('list', 'list', 'tuple', 'generator'))
        elif kind == 'ioport':
            plan['dev'] = self._gen_dev(rng, can_hang=rng.random() < 0.4)
        else:
            plan['dev'] = self._gen_dev(rng)
            if kind == 'dev_out' and rng.random() < 0.4:
                plan['dev']['override_send'] = True     # a backend-style port that overrides send(), not _send()
        can_in = kind != 'dev_out'
        can_out = kind != 'dev_in'
        ops = []
        weights = [('close', 2.5), ('advance', 2), ('with', 0.7), ('del', 0.4)]
        if can_in:
            weights += [('recv', 2.5), ('recv_nb', 1.5), ('poll', 2.5), ('iter_pending', 1.5), ('iter', 2)]
        if can_out:
            weights += [('send', 3), ('reset', 0.5), ('panic', 0.3)]
        for _ in range(rng.randint(1, 12)):
            k = weighted(rng, weights)
            if k == 'send':
                ops.append([k, pick(rng, SHAPES + ('sysex0',)), rng.randrange(128), rng.random() < 0.2])
            elif k == 'iter':
                ops.append([k, pick(rng, (None, None, 0, 1, 2)), rng.randint(1, 4)])
            elif k == 'advance':
                ops.append([k, pick(rng, (0.0005, 0.003, 0.02, 0.3, 1.0))])
            elif k == 'with':
                ops.append([k, pick(rng, ('empty', 'raise', 'poll', 'send', 'raise_os', 'raise_os', 'raise_value'))])
            else:
                ops.append([k])
            if k == 'del':
                break
        plan['ops'] = ops
        if plan['epilogue'] and can_out and kind not in ('multi', 'echo') and rng.random() < 0.5:
            # the first port's own reset burst is cut short by a write error
            plan['autoreset'] = True
            plan['dev']['send_fail'] = [rng.randrange(32)]
        return plan

    # ---------------------------------------------------------------- execution
    def abort_cleanup(self):
        self._restore()
        self._netsim().abort_cleanup()

    def wants_isolation(self, plan):
        return 'scn' in plan and self._netsim().wants_isolation(plan)

    def same_signature(self, a, b):
        return a == b

    def _restore(self):
        saved = getattr(self, '_saved', None)
        simtime.deactivate()
        if saved:
            mports.time, mports.random = saved[0:2]
            mports.set_sleep_time(saved[2])
            self._saved = None
        if not gc.isenabled():
            gc.enable()

    def run(self, prop, plan, keep_log=False):
        if 'scn' in plan:
            return self._netsim().run(prop, plan, keep_log=keep_log)
        log = Log(keep_log)
        stats = collections.Counter()
        cov = set()
        clock = Clock(plan['start_time'], plan['sleep_time'])
        self._saved = (mports.time, mports.random, mports.get_sleep_time())
        mports.time = TimeShim(clock)
        mports.random = RandomShim(plan.get('perms', []))
        mports.set_sleep_time(plan['sleep_time'])
        simtime.activate(lambda: clock.now, mports.time.sleep)
        gc.disable()
        viol = None
        try:
            try:
                self._simulate(plan, clock, log, stats, cov)
            except Violation as v:
                viol = {'sig': v.sig, 'msg': v.msg}
                log.ev('VIOLATION', v.sig)
        finally:
            self._restore()
        nontrivial = stats.pop('_nontrivial', 0) > 0
        return {'viol': viol, 'digest': log.digest(), 'nontrivial': nontrivial, 'stats': stats, 'cov': cov,
                'events': log.events, 'sim_s': clock.now - clock.start}

    def _build(self, plan, clock, log):
        kind = plan['kind']
        ar = plan['autoreset']
        devs = []

        def mk(k, spec, sub):
            d = Device(clock, sub, spec, log)
            if k == 'echo':
                d.style = 'echo'
                d.arrivals = []
                d.hangup = None
                devs.append(d)
                return mports.EchoPort('echo', autoreset=ar)
            devs.append(d)
            cls = {'dev_io': DevIO, 'dev_in': DevIn, 'dev_out': DevOut}[k]
            if k == 'dev_out' and spec.get('override_send'):
                cls = DevOutSend
            if k == 'dev_in':
                return cls('dev', dev=d)
            return cls('dev', dev=d, autoreset=ar)
        if kind == 'multi':
            subs = [mk(s['kind'], s['dev'], i) for i, s in enumerate(plan['subs'])]
            how = plan.get('ports_arg', 'list')
            arg = subs if how == 'list' else (tuple(subs) if how == 'tuple' else (p for p in subs))
            port = mports.MultiPort(arg, yield_ports=plan.get('yield_ports', False))
            return port, subs, devs
        if kind == 'ioport':
            spec = plan['dev']
            din = Device(clock, 0, spec, log)
            dout = Device(clock, 0, {'send_fail': spec.get('send_fail', [])}, log)
            devs.extend([din, dout])
            pin = DevIn('in', dev=din)
            pout = DevOut('out', dev=dout, autoreset=ar)
            return mports.IOPort(pin, pout), [pin, pout], devs
        return mk(kind, plan['dev'], 0), [], devs

    def _simulate(self, plan, clock, log, stats, cov):
        kind = plan['kind']
        port, subs, devs = self._build(plan, clock, log)
        is_multi = kind == 'multi'
        is_echo = kind == 'echo'
        in_devs = list(devs) if kind != 'ioport' else [devs[0]]
        out_devs = list(devs) if kind != 'ioport' else [devs[1]]
        can_in = kind != 'dev_out'
        can_out = kind != 'dev_in'
        autoreset = plan['autoreset'] and can_out
        st = {'deleted': False, 'send_seq': 0}
        echo_taken = []                     # echo kind: messages appended by _send, in order
        out = collections.Counter()         # stream -> number handed out
        nstreams = len(in_devs)
        reset_msgs = [mido.Message(t, channel=ch, control=c) for t, ch, c in RESET]
        panic_msgs = [mido.Message(t, channel=ch, control=c) for t, ch, c in PANIC]

        def P():
            return port

        def taken(s):
            if is_echo:
                return echo_taken
            return in_devs[s].complete_taken()

        def model_pending():
            if is_multi and P().closed:
                # a closed MultiPort only owns what it had already moved into its own queue
                return len(P()._messages)
            return sum(len(taken(s)) - out[s] for s in range(nstreams))

        def next_deliverable_time():
            if model_pending() > 0:
                return clock.now
            if P().closed:
                return None
            ts = []
            for s in range(nstreams):
                d = in_devs[s]
                if d.style != 'echo' and not d.hung and not (is_multi and subs[s].closed):
                    t = d.next_message_time()
                    if t is not None:
                        ts.append(t)
            return min(ts) if ts else None

        def input_gone():
            """The IOPort wrapper stays open when the input port below it closed itself."""
            return kind == 'ioport' and bool(subs[0].closed)

        def hangup_pending():
            if is_multi or is_echo:
                return False
            d = in_devs[0]
            return d.hangup is not None and not d.hung

        def check_msg(where, res):
            m = res
            if is_multi and plan.get('yield_ports'):
                if not (isinstance(res, tuple) and len(res) == 2 and any(res[0] is sp for sp in subs)):
                    raise Violation(f'bad-result@{where}', f'{where} on MultiPort(yield_ports) returned {res!r}')
                m = res[1]
            if not isinstance(m, mido.Message):
                raise Violation(f'bad-result@{where}', f'{where} returned {res!r}')
            s = 0
            if nstreams > 1:
                key = ident(m)
                s = key[0] if key else -1
                if key is None and m.type == 'clock':
                    # a real-time byte that arrived inside a split sysex carries no identity: attribute it to the
                    # first stream whose next taken-in message is a clock
                    for cand in range(nstreams):
                        q0 = taken(cand)
                        if out[cand] < len(q0) and q0[out[cand]].type == 'clock':
                            s = cand
                            break
                if not 0 <= s < nstreams:
                    raise Violation(f'unknown-message@{where}', f'{where} returned {m!r}, which was never taken in')
            q = taken(s)
            if out[s] >= len(q) or not (q[out[s]] == m):
                exp = q[out[s]] if out[s] < len(q) else None
                raise Violation(f'fifo@{where}', f'{where} returned {m!r}; next taken-in message of stream {s} is '
                                                 f'{exp!r} (handed out {out[s]} of {len(q)})')
            out[s] += 1
            if plan.get('consumer_mutates'):
                mutate(m)       # the caller edits what it received; later messages must not care

        DEVERR = object()

        def call(where, fn, *a, expect=()):
            c0, s0 = clock.now, clock.sleep_calls
            clock.arm()
            for d in devs:
                d.recv_failed_now = False
            try:
                res = fn(*a)
                outc = ('ok', res)
            except SimAbort:
                outc = ('never-returned', None)
            except Violation:
                raise
            except BaseException as e:
                if isinstance(e, OSError) and any(d.recv_failed_now for d in devs):
                    # the device failed while being read: the call may fail (never return wrong data)
                    stats['fault:recv_oserror'] += 1
                    outc = ('device-read-error', e.with_traceback(None))
                elif expect and isinstance(e, expect):
                    outc = ('raised', e.with_traceback(None))
                else:
                    raise Violation(f'raised:{type(e).__name__}@{kind}.{where}',
                                    f'{where} on {kind} raised {type(e).__name__}: {e}')
            return outc, clock.now - c0, clock.sleep_calls - s0

        def late(dl):
            return dl is not None and clock.now > dl + 16 * math.ulp(max(1.0, abs(clock.now)))

        def nonblocking(where, fn):
            (tag, res), dt, sl = call(where, fn)
            if tag == 'device-read-error':
                if dt > 0 or sl > 0:
                    raise Violation(f'nonblocking-waited@{kind}.{where}', f'{where} waited before failing')
                return DEVERR
            if tag == 'never-returned' or dt > 0 or sl > 0:
                raise Violation(f'nonblocking-waited@{kind}.{where}',
                                f'{where} (non-blocking) advanced the clock by {dt}s / called sleep {sl} time(s)')
            return res

        def blocking_deadline(t0):
            t = next_deliverable_time()
            return None if t is None else max(t, t0) + 3 * clock.sleep_time

        def do_recv_nb(where, fn):
            res = nonblocking(where, fn)
            if res is DEVERR:
                log.ev(where, 'device-read-error')
                return
            log.ev(where, repr(res))
            if res is None:
                if model_pending() > 0:
                    raise Violation(f'none-but-taken-in@{kind}.{where}',
                                    f'{where} returned None while {model_pending()} taken-in message(s) are undelivered')
                stats['nb_none'] += 1
            else:
                check_msg(where, res)

        def do_recv_blocking(where):
            t0 = clock.now
            dl = blocking_deadline(t0)
            hang = hangup_pending()
            was_closed = bool(P().closed)
            pend0 = model_pending()
            (tag, res), dt, sl = call(where, P().receive, expect=(ValueError, OSError))
            log.ev(where, tag, type(res).__name__ if tag in ('raised', 'device-read-error') else repr(res), round(dt, 6))
            if tag == 'device-read-error':
                return 'ok'
            if tag == 'never-returned':
                if dl is not None:
                    raise Violation(f'blocking-receive-never-returned@{kind}',
                                    f'receive() invoked at +{t0 - clock.start:.6f}s had a message deliverable by '
                                    f'+{dl - clock.start:.6f}s but was still inside at +{clock.now - clock.start:.6f}s')
                if was_closed or hang:
                    raise Violation(f'blocking-receive-never-returned@{kind}',
                                    f'receive() on a port that {"was closed" if was_closed else "hung up"} neither '
                                    f'returned nor raised')
                stats['blocked_forever_legit'] += 1
                return 'end'
            if tag == 'raised':
                if not P().closed and not input_gone():
                    raise Violation(f'raised:{type(res).__name__}@{kind}.{where}',
                                    f'receive() raised {type(res).__name__}: {res} on an open port')
                if model_pending() > 0:
                    raise Violation(f'closed-before-drained@{kind}.{where}',
                                    f'receive() raised {type(res).__name__} with {model_pending()} taken-in '
                                    f'message(s) still undelivered')
                stats['probe:receive_raised_on_closed'] += 1
                return 'closed'
            check_msg(where, res)
            if late(dl):
                raise Violation(f'blocking-receive-late@{kind}',
                                f'receive() returned at +{clock.now - clock.start:.6f}s, a message was deliverable by '
                                f'+{dl - clock.start:.6f}s (3 poll intervals of {clock.sleep_time}s allowed)')
            if pend0 > 0 and (dt > 0 or sl > 0):
                raise Violation(f'blocking-receive-waited-with-queue@{kind}',
                                f'receive() waited {dt}s although {pend0} message(s) were already taken in')
            if dt > 0:
                stats['probe:blocking_receive_waited_for_arrival'] += 1
            if was_closed:
                stats['probe:drained_after_close'] += 1
            return 'ok'

        def snapshot():
            return {'closed': bool(P().closed), 'cc': [d.close_calls for d in devs],
                    'sent': [len(d.sent) for d in out_devs], 'sc': [d.send_calls for d in out_devs]}

        def verify_closed(where, snap):
            """After anything that must leave the port closed (close, with-exit)."""
            if not P().closed:
                raise Violation(f'not-closed-after-close@{kind}', f'{where}: port.closed is False afterwards')
            if snap['closed']:
                stats['probe:double_close'] += 1
            elif can_in and model_pending() > 0:
                stats['probe:close_with_messages_queued'] += 1
            log.ev(where, [d.close_calls for d in devs], [len(d.sent) for d in out_devs])
            for d in devs:
                if d.style != 'echo' and d.close_calls > 1:
                    raise Violation(f'device-release-count@{kind}', f'a device was released {d.close_calls} times '
                                                                    f'({where})')
            if not is_multi and not is_echo:
                for d in devs:
                    if d.close_calls != 1:
                        raise Violation(f'device-release-count@{kind}', f'a device was released {d.close_calls} '
                                                                        f'time(s) after {where}')
            if is_multi:
                return
            if is_echo:
                if not snap['closed'] and autoreset:
                    echo_taken.extend(reset_msgs)
                return
            d = out_devs[0]
            if snap['closed']:
                if d.send_calls != snap['sc'][0]:
                    raise Violation(f'send-after-close@{kind}', f'{where} on an already closed port reached the device')
                return
            if not can_out:
                return
            got = d.sent[snap['sent'][0]:]
            failed = any(i in d.send_fail for i in range(snap['sc'][0], d.send_calls))
            if autoreset and not d.hung_before_close:
                if failed:
                    stats['probe:send_failed_during_autoreset'] += 1
                    ok = got == reset_msgs[:len(got)]
                else:
                    ok = got == reset_msgs
                if not ok:
                    raise Violation(f'autoreset-wrong@{kind}', f'close() with autoreset sent {len(got)} message(s) '
                                                               f'{got[:3]!r}..., expected the 32 reset messages once')
                if d.sent_at_close is not None and d.sent_at_close != len(d.sent):
                    raise Violation(f'autoreset-after-release@{kind}', 'reset messages were sent after the device '
                                                                       'was released')
                stats['probe:autoreset_close'] += 1
            elif not autoreset and got:
                raise Violation(f'autoreset-wrong@{kind}', f'close() without autoreset sent {got[:3]!r}')

        def do_close(where):
            snap = snapshot()
            (tag, res), dt, sl = call(where, P().close)
            if tag == 'never-returned':
                raise Violation(f'close-never-returned@{kind}', 'close() did not return')
            verify_closed(where, snap)

        def do_send(shape, pad, frozen=False):
            s = st['send_seq']
            st['send_seq'] += 1
            m = make_msg(shape, 0, s % 128, pad)
            if frozen:
                m = freeze_message(m)           # immutable flavour of the same message (mido.frozen)
                stats['fault:frozen_message_sent'] += 1
            snap = snapshot()
            open_subs = [i for i, sp in enumerate(subs) if not sp.closed] if is_multi else None
            (tag, res), dt, sl = call('send', P().send, m, expect=(ValueError, OSError))
            log.ev('send', tag, type(res).__name__ if tag == 'raised' else None)
            if tag == 'never-returned' or dt > 0 or sl > 0:
                raise Violation(f'send-waited@{kind}', 'send() advanced the clock / never returned')
            if snap['closed']:
                if tag != 'raised' or not isinstance(res, ValueError):
                    raise Violation(f'send-on-closed@{kind}', f'send() on a closed port: {tag} '
                                                              f'{type(res).__name__ if tag == "raised" else repr(res)}; '
                                                              f'expected ValueError')
                if [d.send_calls for d in out_devs] != snap['sc']:
                    raise Violation(f'send-on-closed@{kind}', 'send() on a closed port reached the device')
                stats['probe:send_after_close'] += 1
                return
            if tag == 'raised':
                hit = any(i in d.send_fail for d, sc0 in zip(out_devs, snap['sc']) for i in range(sc0, d.send_calls))
                if isinstance(res, OSError) and hit:
                    stats['fault:send_oserror'] += 1
                    return
                raise Violation(f'raised:{type(res).__name__}@{kind}.send', f'send() on an open port raised {res!r}')
            if is_echo:
                echo_taken.append(m.copy())
                return
            targets = [(out_devs[i], snap['sent'][i]) for i in (open_subs if is_multi else [0])]
            for d, n0 in targets:
                if len(d.sent) != n0 + 1 or not (d.sent[-1] == m) or (d.sent[-1] is m and not frozen):
                    raise Violation(f'send-not-delivered@{kind}', f'send({m!r}) gave a device {d.sent[n0:]!r}')

        by = mports.EchoPort('bystander') if plan.get('bystander') else None
        by_n = 0
        stop = False
        for op in plan['ops']:
            if stop or st['deleted']:
                break
            k = op[0]
            stats['steps'] += 1
            if by is not None:
                # a second, unrelated port is used in between; it must behave as if it were alone
                by_n += 1
                bm = make_msg('note_on', 9, by_n % 128, by_n)
                clock.arm()
                c0 = clock.now
                try:
                    by.send(bm)
                    back = by.poll()
                    nothing = by.poll()
                except SimAbort:
                    raise Violation(f'nonblocking-waited@{kind}.bystander', 'poll() on an unrelated EchoPort waited '
                                                                            'forever')
                except Exception as e:
                    raise Violation(f'bystander-raised@{kind}', f'an unrelated EchoPort used in between raised {e!r}')
                if clock.now != c0:
                    raise Violation(f'nonblocking-waited@{kind}.bystander', 'send/poll on an unrelated EchoPort advanced '
                                                                            'the clock')
                if not (back == bm) or nothing is not None:
                    raise Violation(f'bystander-disturbed@{kind}', f'an unrelated EchoPort was sent {bm!r} and handed out '
                                                                   f'{back!r} then {nothing!r}')
            for d in devs:
                d.hung_before_close = d.hung
            if k == 'advance':
                clock.now += op[1]
                log.ev('advance', op[1])
            elif k == 'send':
                if can_out:
                    do_send(op[1], op[2], len(op) > 3 and bool(op[3]))
            elif k == 'recv':
                if can_in and do_recv_blocking('receive') == 'end':
                    stop = True
            elif k == 'recv_nb':
                if can_in:
                    do_recv_nb('receive(block=False)', lambda: P().receive(block=False))
            elif k == 'poll':
                if can_in:
                    do_recv_nb('poll', lambda: P().poll())
            elif k == 'iter_pending':
                if can_in:
                    it = P().iter_pending()
                    n = 0
                    while True:
                        res = nonblocking('iter_pending', lambda: next(it, StopIteration))
                        if res is DEVERR:
                            break
                        if res is StopIteration:
                            if model_pending() > 0:
                                raise Violation(f'none-but-taken-in@{kind}.iter_pending',
                                                f'iter_pending stopped with {model_pending()} taken-in message(s) left')
                            break
                        check_msg('iter_pending', res)
                        n += 1
                        if n > 200:
                            raise Violation(f'iter_pending-unbounded@{kind}', 'iter_pending yielded > 200 messages')
                    log.ev('iter_pending', n)
            elif k == 'iter':
                if not can_in:
                    continue
                close_after, limit = op[1], op[2]
                it = iter(P())
                n = 0
                while n < limit:
                    if close_after is not None and n == close_after and not P().closed:
                        do_close('close-in-loop-body')
                        stats['probe:loop_body_closed_port'] += 1
                    t0 = clock.now
                    dl = blocking_deadline(t0)
                    hang = hangup_pending()
                    was_closed = bool(P().closed)
                    (tag, res), dt, sl = call('iter', lambda: next(it, StopIteration),
                                              expect=(OSError, ValueError) if kind == 'ioport' else ())
                    log.ev('iter', tag, repr(res) if tag not in ('device-read-error', 'raised') else 'error',
                           round(dt, 6))
                    if tag == 'device-read-error':
                        if P().closed:
                            raise Violation(f'iteration-raised-on-closed-port@{kind}',
                                            f'the device closed the port inside receive and reported {res!r}; the '
                                            f'for-loop let that exception out instead of ending')
                        break
                    if tag == 'raised':
                        # iterating the wrapper after the input below it hung up: how that ends is not judged
                        if not input_gone():
                            raise Violation(f'raised:{type(res).__name__}@{kind}.iter', f'iteration raised {res!r}')
                        if model_pending() > 0:
                            raise Violation(f'closed-before-drained@{kind}.iter', 'iteration stopped with taken-in '
                                                                                  'messages undelivered')
                        stats['ioport_iter_after_input_hangup'] += 1
                        break
                    if tag == 'never-returned':
                        if dl is not None or was_closed or hang:
                            raise Violation(f'iteration-never-ended@{kind}',
                                            f'for-loop over the port neither yielded nor ended (message deliverable: '
                                            f'{dl is not None}, closed before: {was_closed}, device hang-up pending: '
                                            f'{hang})')
                        stats['blocked_forever_legit'] += 1
                        stop = True
                        break
                    if res is StopIteration:
                        if not P().closed and not is_echo and not input_gone():
                            raise Violation(f'iteration-ended-on-open-port@{kind}', 'iteration ended although the '
                                                                                    'port is open')
                        if model_pending() > 0:
                            raise Violation(f'closed-before-drained@{kind}.iter',
                                            f'iteration ended with {model_pending()} taken-in message(s) undelivered')
                        if P().closed:
                            stats['probe:iteration_ended_by_close'] += 1
                            if was_closed:
                                stats['probe:iterated_already_closed_port'] += 1
                        break
                    check_msg('iter', res)
                    if late(dl):
                        raise Violation(f'blocking-receive-late@{kind}', f'iteration yielded at '
                                        f'+{clock.now - clock.start:.6f}s, deliverable by +{dl - clock.start:.6f}s')
                    n += 1
                if hasattr(it, 'close'):
                    it.close()
                del it
            elif k == 'close':
                do_close('close')
            elif k == 'with':
                body = op[1]
                snap = snapshot()
                raised = None
                try:
                    with P() as p:
                        if p is not P():
                            raise Violation(f'with-returns-other@{kind}', '__enter__ did not return the port')
                        if body == 'raise':
                            raise BodyError('body')
                        if body == 'raise_os':
                            # the application's own I/O failed inside the block (not the port's)
                            raise (FileNotFoundError, TimeoutError, BrokenPipeError, OSError)[len(plan['ops']) % 4](
                                5, 'body-os')
                        if body == 'raise_value':
                            raise KeyError('body-value')
                        if body == 'poll' and can_in and not P().closed:
                            do_recv_nb('poll', lambda: P().poll())
                        if body == 'send' and can_out and not P().closed:
                            do_send('note_on', 1)
                            snap['sent'] = [len(d.sent) for d in out_devs]
                            snap['sc'] = [d.send_calls for d in out_devs]
                except BodyError as e:
                    raised = e
                except (Violation, SimAbort):
                    raise
                except BaseException as e:
                    if body in ('raise_os', 'raise_value') and e.args and e.args[-1] in ('body-os', 'body-value'):
                        raised = e
                        stats['fault:with_body_raised_' + ('oserror' if body == 'raise_os' else 'keyerror')] += 1
                    else:
                        raise Violation(f'raised:{type(e).__name__}@{kind}.with',
                                        f'with-block on {kind} raised {type(e).__name__}: {e}')
                if body.startswith('raise') and raised is None:
                    raise Violation(f'with-swallowed-exception@{kind}', 'the with-block swallowed the body exception')
                verify_closed('with-exit', snap)
                stats['probe:with_block'] += 1
            elif k in ('reset', 'panic'):
                if not can_out:
                    continue
                snap = snapshot()
                open_subs = [i for i, sp in enumerate(subs) if not sp.closed] if is_multi else [0]
                (tag, res), dt, sl = call(k, getattr(P(), k), expect=(OSError,))
                log.ev(k, tag)
                want = reset_msgs if k == 'reset' else panic_msgs
                if is_echo:
                    if not snap['closed'] and tag == 'ok':
                        echo_taken.extend(want)
                    continue
                if snap['closed']:
                    if [d.send_calls for d in out_devs] != snap['sc']:
                        raise Violation(f'send-after-close@{kind}', f'{k}() on a closed port reached the device')
                    continue
                for i in open_subs:
                    d = out_devs[i]
                    got = d.sent[snap['sent'][i]:]
                    failed = any(j in dd.send_fail for dd, sc0 in zip(out_devs, snap['sc'])
                                 for j in range(sc0, dd.send_calls))
                    ok = (got == want[:len(got)]) if failed else (got == want)
                    if not ok or (tag == 'raised' and not failed):
                        raise Violation(f'{k}-wrong@{kind}', f'{k}() sent {got[:3]!r}... ({len(got)} messages)')
            elif k == 'del':
                was_closed = bool(P().closed)
                st['deleted'] = True
                port = None         # CPython: last reference gone -> __del__ -> close()
                log.ev('del', [d.close_calls for d in devs])
                if not (is_multi or is_echo or kind == 'ioport'):
                    d = devs[0]
                    if d.close_calls != 1:
                        raise Violation(f'device-release-count@{kind}',
                                        f'after del (was_closed={was_closed}) the device was released '
                                        f'{d.close_calls} time(s)')
                stats['probe:del_after_close' if was_closed else 'probe:del_open'] += 1
        if plan.get('epilogue'):
            # a second, unrelated autoreset port opened and closed afterwards must get its own full reset burst
            # (whatever happened to the first port while it was being closed)
            if port is not None and not port.closed:
                try:
                    clock.horizon = float('inf')
                    port.close()
                except Exception:
                    pass
            d2 = Device(clock, 0, {}, log)
            p2 = DevOut('later', dev=d2, autoreset=True)
            try:
                p2.close()
                p2.close()
            except Exception as e:
                raise Violation(f'raised:{type(e).__name__}@epilogue.close', f'closing a later, unrelated port raised {e!r}')
            if d2.sent != reset_msgs or d2.close_calls != 1 or d2.sent_at_close != 32:
                raise Violation(f'autoreset-wrong@epilogue', f'a later, unrelated autoreset port got {len(d2.sent)} reset '
                                                             f'message(s) and {d2.close_calls} release(s) on close (earlier '
                                                             f'port kind: {kind})')
            stats['probe:epilogue_port'] += 1
        if any(d.hung for d in devs):
            stats['fault:device_hangup'] += 1
        if any(d.style != 'echo' and any(a[2] is None for a in d.arrivals[:d.next]) for d in devs):
            stats['fault:partial_message_before_hangup'] += 1
        cov.add(f'{kind}|{plan.get("dev", {}).get("style", "-")}')
        if len(plan['ops']) > 1:
            stats['_nontrivial'] += 1
        # teardown: close what is left so that __del__ never runs at a collector-chosen moment
        clock.horizon = float('inf')
        try:
            if by is not None:
                by.close()
            if port is not None:
                port.close()
            for sp in subs:
                sp.close()
        except Exception:
            pass

    # ---------------------------------------------------------------- shrinking
    def shrink(self, prop, plan):
        if 'scn' in plan:
            yield from self._netsim().shrink(prop, plan)
            return
        yield from shrink_list_at(plan, ('ops',), min_len=1)
        if plan['kind'] == 'multi':
            if len(plan['subs']) > 1:
                yield from shrink_list_at(plan, ('subs',), min_len=1)
            for i, s in enumerate(plan['subs']):
                yield from shrink_list_at(plan, ('subs', i, 'dev', 'arrivals'))
                if 'hangup' in s['dev']:
                    c = replace_at(plan, ('subs', i, 'dev'), {k: v for k, v in s['dev'].items()
                                                               if k not in ('hangup', 'partial')})
                    yield c
        else:
            yield from shrink_list_at(plan, ('dev', 'arrivals'))
            d = plan['dev']
            if 'hangup' in d:
                yield replace_at(plan, ('dev',), {k: v for k, v in d.items() if k not in ('hangup', 'partial')})
            if 'partial' in d:
                yield replace_at(plan, ('dev',), {k: v for k, v in d.items() if k != 'partial'})
            if d.get('send_fail'):
                yield replace_at(plan, ('dev',), {k: v for k, v in d.items() if k != 'send_fail'})
            if d.get('recv_fail'):
                yield replace_at(plan, ('dev',), {k: v for k, v in d.items() if k != 'recv_fail'})
            if d.get('style') != 'old':
                yield replace_at(plan, ('dev', 'style'), 'old')
        if plan['autoreset']:
            yield replace_at(plan, ('autoreset',), False)
        for flag in ('epilogue', 'bystander', 'consumer_mutates'):
            if plan.get(flag):
                yield replace_at(plan, (flag,), False)
        if plan['start_time']:
            yield replace_at(plan, ('start_time',), 0.0)
        for i, op in enumerate(plan['ops']):
            if op[0] == 'iter' and op[2] > 1:
                yield replace_at(plan, ('ops', i, 2), op[2] - 1)

    def rule(self, prop):
        return ('Each run: one port (custom device port in/out/io with old-style, new-style or genuinely blocking '
                '_receive; EchoPort; IOPort over two device doubles; MultiPort over 1-3 sub-ports) driven by a '
                'generated history of up to 12 caller operations (send, receive, receive(block=False), poll, '
                'iter_pending, for-loops with an optional close() in the body, close, with-blocks whose body may '
                'raise, reset, panic, del, clock advance) while the device lives on a virtual clock: messages arrive '
                'at planned times, the device hangs up (closes the port from inside _receive) at a planned position '
                'relative to the arrivals, optionally after a partial message, and _send fails with OSError at planned '
                'call indices (also during the autoreset of close()). Non-trivial = more than one operation.')

    def coverage_report(self, prop, cov):
        return {'port_kind_x_receive_style_cells_hit': len(cov), 'cells': sorted(cov)}

    def components(self, prop):
        return {'real': ['mido.ports: BasePort.close/__enter__/__exit__/__del__, BaseInput.receive/poll/iter_pending/'
                         '__iter__, BaseOutput.send/reset/panic, IOPort, EchoPort, MultiPort, multi_receive, sleep, '
                         'reset_messages, panic_messages', 'mido.parser.Parser (inside device ports)'],
                'stub': ['device below _send/_receive/_close (arrival schedule, hang-up, write errors)',
                         'time.sleep -> virtual clock', 'random.shuffle -> planned rotation'],
                'real_one_run_in_eight': ['mido.sockets SocketPort/PortServer through the netsim world (its rules for '
                                          'iteration, closing and blocking calls)'],
                'not_run': ['C-library backends (a double that overrides send() like rtmidi/amidi outputs is used)']}

    def assumptions(self, prop):
        return ['Single caller thread: the documentation says opening/closing ports is not thread safe.',
                '"Taken in" is defined observably: messages whose last byte the device double had handed to the port '
                '(or that an echo port appended on send).',
                'A blocking receive may use up to 3 poll intervals after a message became deliverable; the run is '
                'aborted 50 poll intervals after the last scheduled device event.']

    def probe_names(self, prop):
        return ['close_with_messages_queued', 'loop_body_closed_port', 'send_failed_during_autoreset',
                'blocking_receive_waited_for_arrival', 'double_close', 'del_after_close', 'del_open',
                'iteration_ended_by_close', 'iterated_already_closed_port', 'receive_raised_on_closed',
                'send_after_close', 'autoreset_close', 'with_block', 'drained_after_close']


ENGINE = Lifecycle()
