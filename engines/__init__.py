"""Engine registry and base class. One engine = one simulated world (DESIGN section 3)."""
import importlib

_BY_PROP = {
    'C04': 'wire', 'C05': 'wire', 'C06': 'wire',
    'C07': 'filestore', 'C10': 'ports_conc', 'C11': 'lifecycle', 'C13': 'playback',
    'C16': 'history', 'C17': 'charset', 'C18': 'netsim',
}
_cache = {}


def get_engine(prop):
    name = _BY_PROP[prop]
    if name not in _cache:
        mod = importlib.import_module(f'engines.{name}')
        _cache[name] = mod.ENGINE
    return _cache[name]


class Violation(Exception):
    def __init__(self, sig, msg):
        Exception.__init__(self, sig, msg)
        self.sig = sig
        self.msg = msg


class BaseEngine:
    name = 'base'
    avoid = frozenset()

    def tiers(self, prop):
        raise NotImplementedError

    def gen(self, prop, seed, idx, tier):
        raise NotImplementedError

    def run(self, prop, plan, keep_log=False):
        raise NotImplementedError

    def shrink(self, prop, plan):
        return iter(())

    def same_signature(self, a, b):
        return a == b

    def wants_isolation(self, plan):
        """True for plans that should always run in a pristine forked process (e.g. several threads racing for
        the first use of something in the process)."""
        return False

    def abort_cleanup(self):
        pass

    def sample_view(self, plan):
        return plan

    def level(self, prop):
        return 'exploration'

    def rule(self, prop):
        return ''

    def coverage_report(self, prop, cov):
        return {'cells_hit': len(cov)}

    def components(self, prop):
        return {}

    def assumptions(self, prop):
        return []

    def probe_names(self, prop):
        return []
