"""Engine `ports_conc` - several threads on one port under a simulated scheduler (DESIGN 3: C10).

Real mido classes (BaseInput/BaseOutput/BaseIOPort, IOPort, EchoPort, MultiPort, multi_receive,
Parser, Tokenizer, ParserQueue); only the device below them is a double. Threads are real
threads, the choice of who runs is the simulator's (simkit.sched), at statement granularity
inside mido/ports.py, parser.py, tokenizer.py and backends/_parser_queue.py.
"""
import collections
import gc

from simkit import bootstrap
from simkit.choice import rng_for, derive, Log, pick, weighted
from simkit.sched import Sched, SimAbort
from simkit import simsync, simtime
from simkit.shrink import shrink_list_at, replace_at
from . import BaseEngine, Violation

mido = bootstrap()
import mido.ports as mports  # noqa: E402
import mido.backends._parser_queue as pqmod  # noqa: E402
import mido.sockets as msock  # noqa: E402
from simkit import simnet  # noqa: E402

TRACED = ('mido/ports.py', 'mido/parser.py', 'mido/tokenizer.py', 'mido/sockets.py',
          'mido/backends/_parser_queue.py', 'mido/midifiles/tracks.py', 'mido/midifiles/midifiles.py',
          'mido/midifiles/units.py', 'mido/messages/decode.py', 'mido/messages/encode.py',
          'mido/messages/messages.py', 'mido/messages/checks.py', 'mido/messages/specs.py',
          'mido/midifiles/meta.py')
KINDS = ('locked_old', 'locked_new', 'echo', 'ioport', 'multi', 'multi_yield', 'pq', 'pair')
MSG_SHAPES = ('note_on', 'control_change', 'program_change', 'pitchwheel', 'sysex', 'sysex', 'songpos', 'note_off',
              'rt', 'sysex_raw', 'sysex0')
BURST_SENDER = 99       # reset()/panic() bursts: identity (99, position in the burst)
BURST_CONTROLS = {123: 0, 121: 1, 120: 2}
RT_NAMES = ('clock', 'start', 'continue', 'stop', 'active_sensing', 'reset')
_CUR = {'sched': None}


def _yield(where):
    s = _CUR['sched']
    if s is not None and simsync._active() is s and not s.aborting:
        s.yield_point(where)


# ---------------------------------------------------------------- identity-carrying messages

def make_msg(shape, sender, seq, pad):
    """A message whose fields carry (sender, seq). seq < 128, sender < 16."""
    if shape == 'note_on':
        return mido.Message('note_on', channel=sender, note=seq, velocity=pad % 128)
    if shape == 'note_off':
        return mido.Message('note_off', channel=sender, note=seq, velocity=pad % 128)
    if shape == 'control_change':
        return mido.Message('control_change', channel=sender, control=seq, value=pad % 128)
    if shape == 'program_change':
        return mido.Message('program_change', channel=sender, program=seq)
    if shape == 'pitchwheel':
        return mido.Message('pitchwheel', channel=sender, pitch=seq - 64)
    if shape == 'songpos':
        return mido.Message('songpos', pos=sender * 128 + seq)
    if shape == 'rt':
        # a real-time message has no data field: the identity travels in `time` (kept by in-process ports,
        # dropped by byte-wise device ports, where such messages are counted per type instead)
        return mido.Message(RT_NAMES[pad % 6], time=sender * 1000 + seq + 1)
    if shape == 'sysex0':
        # a sysex without payload: like a real-time message it has no data field to carry the identity
        return mido.Message('sysex', data=(), time=sender * 1000 + seq + 1)
    data = [sender, seq] + [(pad + i) % 128 for i in range(pad % 13)]
    if shape == 'sysex_raw':
        # the application vouches for the values itself and hands over its own mutable buffer
        return mido.Message('sysex', data=bytearray(data) if pad & 1 else data, skip_checks=True)
    return mido.Message('sysex', data=data)


def burst_messages(which):
    """What reset() / panic() must put on the port, written from their documentation."""
    out = []
    for ch in range(16):
        for ctl in ((123, 121) if which == 'reset' else (120,)):
            out.append(mido.Message('control_change', channel=ch, control=ctl))
    return out


def ident(m):
    t = m.type
    if t in ('note_on', 'note_off'):
        return (m.channel, m.note)
    if t == 'control_change' and m.control in BURST_CONTROLS:
        return (BURST_SENDER, m.channel * 2 + BURST_CONTROLS[m.control] if m.control != 120 else 32 + m.channel)
    if t == 'control_change':
        return (m.channel, m.control)
    if t == 'program_change':
        return (m.channel, m.program)
    if t == 'pitchwheel':
        return (m.channel, m.pitch + 64)
    if t == 'songpos':
        return (m.pos // 128, m.pos % 128)
    if t == 'sysex' and len(m.data) >= 2:
        return (m.data[0], m.data[1])
    if (t in RT_NAMES or (t == 'sysex' and len(m.data) == 0)) and isinstance(m.time, int) and m.time > 0:
        return (m.time // 1000, m.time % 1000 - 1)
    return None


def anon_kind(m):
    """Name under which a message without data field is counted when its identity (time) did not travel."""
    if m.type in RT_NAMES:
        return m.type
    if m.type == 'sysex' and len(m.data) == 0:
        return 'sysex(empty)'
    return None


def mutate(m):
    """What a sender does to its own object after send() returned (and what a receiver may do to the
    message it was handed). Never raises: a message that is already corrupt is left to the oracle."""
    try:
        _mutate(m)
    except Exception:
        pass


def _mutate(m):
    t = m.type
    if t in ('note_on', 'note_off'):
        m.note = (m.note + 1) % 128
        m.velocity = 127 - m.velocity
    elif t == 'control_change':
        m.control = (m.control + 1) % 128
    elif t == 'program_change':
        m.program = (m.program + 1) % 128
    elif t == 'pitchwheel':
        m.pitch = -m.pitch
        m.channel = (m.channel + 1) % 16
    elif t == 'songpos':
        m.pos = (m.pos + 1) % 16384
    elif t in RT_NAMES:
        m.time = m.time + 500
    else:
        m.data += [126]
        m.data = [127, 127] + list(m.data)


def snap_msg(m):
    try:
        return (m.type, tuple(sorted((k, tuple(v) if isinstance(v, (list, tuple)) else v)
                                     for k, v in vars(m).items() if k != 'type')))
    except Exception:
        return ('?', repr(m))


# ---------------------------------------------------------------- device doubles

DEVICE_READ_ERROR = 'simulated device read error'
DEVERR = object()


class Wire:
    def __init__(self):
        self.buf = []
        self.log = []
        self.start = 0


class LockedDev(mports.BaseIOPort):
    """Custom device port per the documented API (_locking = True): byte-wise _send."""
    two_step_read = True
    def _open(self, wire=None, newstyle=False, **kw):
        self.wire = wire
        self.newstyle = newstyle
        self.recv_calls = 0
        self.recv_fail_at = None

    def _send(self, msg):
        for b in msg.bytes():
            self.wire.buf.append(b)
            self.wire.log.append(b)
            _yield('dev.send')

    def _receive(self, block=True):
        i = self.recv_calls = getattr(self, 'recv_calls', 0) + 1
        if getattr(self, 'recv_fail_at', None) == i and self.wire.buf:
            # a transient device read error: nothing was read, the bytes stay where they are
            raise OSError(5, DEVICE_READ_ERROR)
        if self.wire.buf:
            data = self.wire.buf[:]
            if self.two_step_read:
                # reading and clearing the device buffer are two steps: the port lock, which covers _send and
                # _receive of ONE port object alike, is what keeps a send from landing in between
                _yield('dev.recv')
                del self.wire.buf[:]
            else:
                del self.wire.buf[:len(data)]
            self._parser.feed(data)
        if self.newstyle:
            return self._parser.get_message()


class DevIn(mports.BaseInput):
    two_step_read = False       # input and output halves are separate port objects: the device itself is atomic

    def _open(self, wire=None, newstyle=False, **kw):
        self.wire = wire
        self.newstyle = newstyle

    _receive = LockedDev._receive


class DevOut(mports.BaseOutput):
    def _open(self, wire=None, **kw):
        self.wire = wire

    _send = LockedDev._send


class RtLikeInput(mports.BaseInput):
    """Shaped like mido.backends.rtmidi.Input: _locking False, queue-backed receive/poll."""
    _locking = False

    def _open(self, **kw):
        self._queue = pqmod.ParserQueue()

    def receive(self, block=True):
        if block:
            return self._queue.get()
        return self._queue.poll()

    def poll(self):
        return self._queue.poll()


# ---------------------------------------------------------------- engine

class PortsConc(BaseEngine):
    name = 'ports_conc'

    def tiers(self, prop):
        return {'quick': 40_000, 'thorough': 1_500_000}

    # ------------ generation
    def gen(self, prop, seed, idx, tier):
        rng = rng_for(prop, seed, idx, 'plan')
        if prop == 'C10' and tier != 'inner' and idx % 20 == 13:
            return self.gen_server_bcast(prop, seed, idx, rng_for(prop, seed, idx, 'server'))
        kinds = [k for k in KINDS if k not in self.avoid]
        kind = pick(rng, kinds)
        big = rng.random() < 0.05
        n_send = rng.randint(1, 3)
        n_recv = rng.randint(1, 3 if big else 2)
        if 'two_receivers_on_ioport' in self.avoid and kind == 'ioport':
            n_recv = 1
        senders = []
        for s in range(n_send):
            senders.append([[pick(rng, MSG_SHAPES), rng.randrange(128)] for _ in range(rng.randint(1, 5))])
        total = sum(len(s) for s in senders)
        if kind not in ('pq', 'pair') and rng.random() < 0.12:
            # one sender also calls reset() or panic(): a burst of library-made messages through the same send path
            tgt_s = senders[rng.randrange(n_send)]
            tgt_s.insert(rng.randint(0, len(tgt_s)), [pick(rng, ('reset', 'reset', 'panic')), 0])
        receivers = []
        n_sub = rng.randint(1, 3) if kind.startswith('multi') else 1
        recv_fault = None
        if kind in ('multi', 'multi_yield', 'locked_old', 'locked_new') and rng.random() < 0.15:
            recv_fault = [rng.randrange(n_sub), rng.randint(1, 6)]      # sub-port, number of the failing read
        temp_wrapper = kind.startswith('multi') and rng.random() < 0.15
        for r in range(n_recv):
            ops = []
            for _ in range(rng.randint(1, 5)):
                k = weighted(rng, (('poll', 4), ('receive', 3), ('iter_pending', 2), ('iter', 1)))
                if kind.startswith('multi') and 'multiport_blocking_receive' in self.avoid and k in ('receive', 'iter'):
                    k = 'poll'
                tgt = -1
                if kind.startswith('multi') and rng.random() < 0.25:
                    tgt = rng.randrange(n_sub)
                if k == 'iter':
                    ops.append([k, tgt, rng.randint(1, 3)])
                else:
                    ops.append([k, tgt])
            receivers.append(ops)
        pol = weighted(rng, (('random', 5), ('pct', 3), ('rr', 2)))
        if pol == 'random':
            sched = {'kind': 'random', 'p': pick(rng, (0.02, 0.1, 0.3))}
        elif pol == 'pct':
            nthreads = n_send + n_recv + 1
            prios = list(range(nthreads))
            rng.shuffle(prios)
            sched = {'kind': 'pct', 'prios': prios,
                     'points': sorted(rng.randrange(600) for _ in range(rng.randint(1, 3)))}
        else:
            sched = {'kind': 'rr', 'quantum': pick(rng, (1, 2, 5, 20))}
        return {'prop': prop, 'kind': kind, 'n_sub': n_sub,
                'sub_kinds': [pick(rng, ('echo', 'locked_old', 'locked_new')) for _ in range(n_sub)],
                'senders': senders, 'receivers': receivers, 'mutate_after_send': rng.random() < 0.7,
                'receivers_mutate': rng.random() < 0.4, 'prelude': rng.random() < 0.25,
                'chunks': [rng.randint(1, 4) for _ in range(8)], 'pq_whole': rng.random() < 0.5, 'pq_batch': [pick(rng, (1, 1, 2, 3, 4)) for _ in range(3)],
                'sleep_time': pick(rng, (1e-4, 1e-3, 1e-2, 0.5)), 'start_time': pick(rng, (0.0, 100.0, 1.7e9)),
                'sched': sched, 'sched_seed': derive(prop, seed, idx, 'sched'), 'decisions': [], 'total': total,
                'recv_fault': recv_fault, 'temp_wrapper': temp_wrapper,
                'max_steps': 400000 if any(sh in ('reset', 'panic') for s_ in senders for sh, _ in s_) else 30000}

    def gen_twin(self, prop, seed, idx, wires, rng):
        """Two threads, each an independent user of the parser (own Parser object fed in chunks, or repeated
        mido.parse_all calls on its own data). Nothing is shared on purpose."""
        base = self.gen(prop, seed, idx, 'inner')
        base['kind'] = 'twin_parsers'
        base['wires'] = [list(w) for w in wires]
        base['twin_api'] = [pick(rng, ('parser', 'parser', 'parse_all', 'feed_byte')) for _ in wires]
        base['senders'] = [[] for _ in wires]
        base['receivers'] = []
        base['chunks'] = [rng.randint(1, 6) for _ in range(rng.randint(1, 8))]
        return base

    def gen_twin_files(self, prop, seed, idx, files, rng):
        """Two threads, each iterating and measuring its OWN MidiFile (independent objects)."""
        base = self.gen(prop, seed, idx, 'inner')
        base['kind'] = 'twin_files'
        base['files'] = files          # [{'tpb':..., 'tracks': [[ [delta, kind, arg] ...]]}, ...]
        base['senders'] = [[] for _ in files]
        base['receivers'] = []
        return base

    def gen_sock_close(self, prop, seed, idx, rng):
        """A reader thread iterating a SocketPort while another thread closes it (peer connected, possibly silent)."""
        base = self.gen(prop, seed, idx, 'inner')
        base['kind'] = 'sock_close'
        base['senders'] = [[[pick(rng, MSG_SHAPES[:8]), rng.randrange(128)] for _ in range(rng.randint(0, 3))]]
        base['receivers'] = [[['iter', -1, 50]]]
        base['close_after'] = rng.randint(0, 40)
        return base

    def gen_server_bcast(self, prop, seed, idx, rng):
        """A PortServer broadcasting to its clients from one thread while another thread closes one client's port and
        accepts a new connection through the public accept()."""
        base = self.gen(prop, seed, idx, 'inner')
        base['kind'] = 'server_bcast'
        base['n_clients'] = rng.randint(2, 3)
        base['closed_client'] = rng.randrange(2)
        base['senders'] = [[[pick(rng, MSG_SHAPES[:8]), rng.randrange(128)] for _ in range(rng.randint(1, 4))], []]
        base['receivers'] = []
        base['close_after'] = rng.randint(0, 60)
        base['recv_fault'] = None
        base['max_steps'] = 30000
        return base

    def gen_raw(self, prop, seed, idx, wire, rng):
        """Plan for C05 mode B: a driver thread feeds `wire` to a ParserQueue in chunks, 1-2 consumers;
        or (every third) several producers each feeding whole encodings, several per put_bytes call."""
        base = self.gen(prop, seed, idx, 'inner')
        if rng.random() < 0.35:
            base['kind'] = 'pq'
            base['pq_whole'] = True
            if len(base['senders']) < 2:
                base['senders'].append([[pick(rng, MSG_SHAPES), rng.randrange(128)] for _ in range(rng.randint(2, 5))])
            for r in base['receivers']:
                for op in r:
                    op[1] = -1
            return base
        base['kind'] = 'pq_raw'
        base['wire'] = list(wire)
        base['senders'] = [[]] if rng.random() < 0.6 else [[], []]
        base['chunks'] = [rng.randint(1, 5) for _ in range(rng.randint(1, 8))]
        base['hows'] = [pick(rng, ('list', 'bytes', 'bytearray')) for _ in range(3)]
        base['receivers'] = [[[weighted(rng, (('poll', 5), ('receive', 2), ('iter_pending', 2))), -1]
                              for _ in range(rng.randint(1, 6))] for _ in range(rng.randint(1, 2))]
        return base

    # ------------ execution
    def abort_cleanup(self):
        self._restore()

    def _restore(self):
        saved = getattr(self, '_saved', None)
        if saved:
            mports.threading, mports.time, mports.random = saved[0:3]
            pqmod.RLock, pqmod.queue = saved[3:5]
            mports.set_sleep_time(saved[5])
            self._saved = None
        if getattr(self, '_saved_sock', None):
            msock.socket, msock.select = self._saved_sock
            self._saved_sock = None
        simtime.deactivate()
        simsync.set_sched(None)
        _CUR['sched'] = None
        if not gc.isenabled():
            gc.enable()

    def run(self, prop, plan, keep_log=False):
        log = Log(keep_log)
        stats = collections.Counter()
        cov = set()
        rng = None
        if plan['sched']['kind'] != 'replay':
            rng = rng_for('sched', plan.get('sched_seed', 0))
        sched = Sched(TRACED, rng=rng, policy=plan['sched'], decisions=plan.get('decisions'),
                      max_steps=plan.get('max_steps', 30000), start_time=plan['start_time'], log=log)
        self._saved = (mports.threading, mports.time, mports.random, pqmod.RLock, pqmod.queue,
                       mports.get_sleep_time())
        tshim = simsync.ThreadingShim()
        mports.threading = tshim
        mports.time = simsync.TimeShim(sched)
        mports.random = simsync.RandomShim(sched)
        pqmod.RLock = simsync.SimRLock
        pqmod.queue = simsync.QueueShim
        mports.set_sleep_time(plan['sleep_time'])
        self._saved_sock = None
        if plan['kind'] in ('sock_close', 'server_bcast'):
            self._saved_sock = (msock.socket, msock.select)
            net = simnet.SimNet(sched, log)
            sel = simnet.SelectShim(net)

            def blocked_forever(rlist, sel=sel, net=net, sched=sched):
                s = simsync._active()
                if s is None:
                    raise SimAbort()
                s.block(sel, 'select.wait')      # nobody will ever wake it: a select() without timeout on a silent peer
            sel.blocked_forever = blocked_forever
            msock.socket = simnet.SocketShim(net)
            msock.select = sel
            self._net = net
        simsync.set_sched(sched)
        _CUR['sched'] = sched
        simtime.activate(lambda: sched.now, mports.time.sleep)
        gc.disable()
        viol = None
        try:
            try:
                self._simulate(plan, sched, log, stats, cov, tshim)
            except Violation as v:
                viol = {'sig': v.sig, 'msg': v.msg}
                log.ev('VIOLATION', v.sig)
        finally:
            self._restore()
        stats['steps'] += sched.total_steps
        stats['switches'] += sched.switches
        for k, v in sched.stats.items():
            stats['probe:' + k] += v
        final = dict(plan)
        final['sched'] = {'kind': 'replay'}
        final['decisions'] = sched.recorded if plan['sched']['kind'] != 'replay' else plan.get('decisions', [])
        return {'viol': viol, 'digest': log.digest(), 'nontrivial': sched.switches > 0, 'stats': stats,
                'cov': cov, 'events': log.events, 'sim_s': sched.now - sched.start_time, 'final_plan': final}

    def _build(self, plan):
        self._recv_victim = None
        kind = plan['kind']
        wires = []
        subs = []

        def dev(k):
            w = Wire()
            wires.append(w)
            if k == 'echo':
                return mports.EchoPort('echo')
            return LockedDev('dev', wire=w, newstyle=(k == 'locked_new'))
        if kind in ('locked_old', 'locked_new', 'echo'):
            port = dev(kind)
        elif kind == 'ioport':
            w = Wire()
            wires.append(w)
            subs = [DevIn('in', wire=w, newstyle=bool(plan['senders'][0][0][1] & 1)), DevOut('out', wire=w)]
            port = mports.IOPort(subs[0], subs[1])
        elif kind in ('multi', 'multi_yield'):
            subs = [dev(k) for k in plan['sub_kinds'][:plan['n_sub']]]
            port = mports.MultiPort(subs, yield_ports=(kind == 'multi_yield'))
            if plan.get('temp_wrapper'):
                # another, short-lived wrapper around the same ports is used and dropped first: the ports are
                # the application's, not the wrapper's
                with mports.MultiPort(subs) as tmp:
                    tmp.poll()
                del tmp
        elif kind in ('twin_parsers', 'twin_files'):
            port = None
        elif kind == 'sock_close':
            net = self._net
            lst = net.socket()
            lst.bind(('h', 1))
            lst.listen(1)
            raw = net.socket()
            raw.connect(('h', 1))
            conn, (chost, cport) = lst.accept()
            port = msock.SocketPort(chost, cport, conn=conn)
            self._raw = raw
        elif kind == 'server_bcast':
            net = self._net
            port = msock.PortServer('h', 1)
            self._raws = []
            for _ in range(plan['n_clients']):
                raw = net.socket()
                raw.connect(('h', 1))
                self._raws.append(raw)
                port.poll()                 # the server takes the pending connection in (one per sweep)
            subs = list(port.ports)
            if len(subs) != plan['n_clients']:
                raise Violation('server:accept-failed', f'{plan["n_clients"]} clients connected, the server holds '
                                                        f'{len(subs)} ports after as many sweeps')
        elif kind == 'pair':
            # two independent device ports used side by side: nothing sent on one may show up on the other
            subs = [dev(k if k != 'echo' else 'locked_old') for k in (plan['sub_kinds'] * 2)[:2]]
            port = subs[0]
        else:
            port = RtLikeInput('rt')
        rf = plan.get('recv_fault')
        if rf:
            victims = [p for p in (subs or [port]) if isinstance(p, LockedDev)]
            if victims:
                self._recv_victim = (victims[rf[0] % len(victims)], rf[1])
        return port, subs, wires

    def _simulate(self, plan, sched, log, stats, cov, tshim):
        kind = plan['kind']
        port, subs, wires = self._build(plan)
        if plan.get('prelude') and kind in ('locked_old', 'locked_new', 'ioport', 'pair', 'echo') and plan['senders'] \
                and plan['senders'][0]:
            # earlier traffic on the same port, before the threads start: the very encoding sender 0 will send first
            # went through once already, and its receiver edited the object it got
            shape, pad = plan['senders'][0][0]
            try:
                pre = make_msg(shape, 0, 0, pad)
                port.send(pre)
                r = port.poll()
                if r is not None:
                    mutate(r)
                stats['fault:earlier_traffic_same_encoding'] += 1
            except Exception as e:
                raise Violation(f'raised:{type(e).__name__}@{kind}.prelude', f'single-threaded send/poll before the '
                                                                             f'threads started raised {e!r}')
            for w in wires:
                w.start = len(w.log)
        hist = []            # (thread, op, invoke_seq, return_seq, result)
        sent = []            # (sender, seq, original copy, invoke_seq)
        errors = []
        done = {'senders': 0}
        n_send = len(plan['senders'])
        progress = {'last': 0, 'idle': 0}

        def record(th, op, inv, res):
            hist.append((th, op, inv, sched.total_steps, res))
            log.ev('op', th, op, inv, sched.total_steps, repr(res))

        def guarded(th, op, fn, *a, tolerate=()):
            inv = sched.total_steps
            try:
                res = fn(*a)
            except SimAbort:
                raise
            except BaseException as e:
                if tolerate and isinstance(e, tolerate):
                    record(th, op, inv, f'tolerated {type(e).__name__}')
                    stats['tolerated:' + type(e).__name__] += 1
                    return inv, DEVERR
                if isinstance(e, OSError) and DEVICE_READ_ERROR in str(e):
                    # the injected fault came through to the caller: allowed; nothing may be lost because of it
                    stats['fault:device_read_error_reached_caller'] += 1
                    record(th, op, inv, 'device-read-error')
                    return inv, DEVERR
                errors.append((th, op, e))
                record(th, op, inv, f'raised {type(e).__name__}: {e}')
                if not isinstance(e, StopIteration):
                    sched._begin_abort('violation')
                raise Violation(f'raised:{type(e).__name__}@{kind}.{op}',
                                f'{op} on {kind} raised {type(e).__name__}: {e} (thread {th})')
            return inv, res

        fed_log = []         # pq_raw: (return_step, total bytes fed so far)

        turn = {'next': 0, 'pos': 0}
        turn_key = object()

        def relay_driver(si):
            # the stream is delivered in order, but by whichever of several driver threads has its turn
            data = plan['wire']
            n = len(plan['senders'])
            while turn['pos'] < len(data):
                if turn['next'] % n != si:
                    sched.block(turn_key, 'relay.wait')     # parked until the thread whose turn it is has fed
                    continue
                size = plan['chunks'][turn['next'] % len(plan['chunks'])]
                piece = data[turn['pos']:turn['pos'] + size]
                guarded(f'S{si}', 'put_bytes', port._queue.put_bytes, list(piece))
                turn['pos'] += len(piece)
                turn['next'] += 1
                fed_log.append((sched.total_steps, turn['pos']))
                log.ev('fed', si, turn['pos'])
                sched.wake(turn_key)
            sched.wake(turn_key)
            done['senders'] += 1

        def raw_driver():
            data = plan['wire']
            pos = 0
            ci = 0
            while pos < len(data):
                size = plan['chunks'][ci % len(plan['chunks'])]
                ci += 1
                how = plan.get('hows', ['list'])[ci % len(plan.get('hows', ['list']))]
                piece = data[pos:pos + size]
                arg = bytes(piece) if how == 'bytes' else (bytearray(piece) if how == 'bytearray' else list(piece))
                guarded('S0', 'put_bytes', port._queue.put_bytes, arg)
                pos += len(piece)
                fed_log.append((sched.total_steps, pos))
                log.ev('fed', pos)
            done['senders'] += 1

        twin_out = {}

        def twin_body(si):
            from mido.parser import Parser
            data = plan['wires'][si]
            api = plan['twin_api'][si]
            out = []
            if api == 'parse_all':
                for _ in range(2):
                    inv, res = guarded(f'S{si}', 'parse_all', mido.parse_all, list(data))
                    out.append([snap_msg(m) for m in res])
            else:
                prs = Parser()
                pos = 0
                ci = si
                got = []
                while pos < len(data):
                    size = plan['chunks'][ci % len(plan['chunks'])]
                    ci += 1
                    piece = data[pos:pos + size]
                    pos += len(piece)
                    if api == 'feed_byte':
                        for b in piece:
                            guarded(f'S{si}', 'feed_byte', prs.feed_byte, b)
                    else:
                        guarded(f'S{si}', 'feed', prs.feed, piece)
                    if ci % 2:
                        inv, res = guarded(f'S{si}', 'drain', list, prs)
                        got.extend(snap_msg(m) for m in res)
                inv, res = guarded(f'S{si}', 'drain', list, prs)
                got.extend(snap_msg(m) for m in res)
                out.append(got)
            twin_out[si] = out
            record(f'S{si}', 'twin_done', sched.total_steps, len(out))
            done['senders'] += 1

        def files_body(si):
            mf = twin_files[si]
            out = []
            for _ in range(2):
                inv, res = guarded(f'S{si}', 'iterate', list, mf)
                out.append([snap_msg(m) for m in res])
                inv, res = guarded(f'S{si}', 'length', lambda: mf.length)
                out.append(repr(res))
            twin_out[si] = out
            record(f'S{si}', 'files_done', sched.total_steps, len(out))
            done['senders'] += 1

        def closer_body():
            for _ in range(plan.get('close_after', 0)):
                _yield('closer.wait')
            inv, _ = guarded('S0', 'close', port.close)
            record('S0', 'close', inv, None)
            done['senders'] += 1

        bcast_ok = []

        def acceptor_body():
            # the application closes one client's port itself, then takes a new connection with the public accept()
            for _ in range(plan.get('close_after', 0)):
                _yield('acceptor.wait')
            victim = subs[plan['closed_client'] % len(subs)]
            inv, _ = guarded('S1', 'close', victim.close)
            record('S1', 'close', inv, None)
            raw = self._net.socket()
            raw.connect(('h', 1))
            self._raws.append(raw)
            inv, res = guarded('S1', 'accept', port.accept)
            record('S1', 'accept', inv, type(res).__name__)
            self._late_port = res
            done['senders'] += 1

        def sender_body(si):
            def body():
                if kind == 'server_bcast' and si == 1:
                    return acceptor_body()
                if kind == 'sock_close':
                    return closer_body()
                if kind == 'twin_files':
                    return files_body(si)
                if kind == 'twin_parsers':
                    return twin_body(si)
                if kind == 'pq_raw' and len(plan['senders']) > 1:
                    return relay_driver(si)
                if kind == 'pq_raw':
                    return raw_driver()
                if kind == 'pq':
                    return pq_driver(si)
                for seq, (shape, pad) in enumerate(plan['senders'][si]):
                    if shape in ('reset', 'panic'):
                        if kind in ('pq', 'pair'):
                            continue
                        base = 0 if shape == 'reset' else 32
                        for j, bm in enumerate(burst_messages(shape)):
                            sent.append((BURST_SENDER, base + j, bm, sched.total_steps, None))
                        inv, _ = guarded(f'S{si}', shape, getattr(port, shape))
                        record(f'S{si}', shape, inv, (si, seq))
                        stats['fault:' + shape + '_burst'] += 1
                        continue
                    m = make_msg(shape, si, seq, pad)
                    orig = make_msg('sysex' if shape == 'sysex_raw' else shape, si, seq, pad)
                    sent.append((si, seq, orig, sched.total_steps, m))
                    if kind == 'server_bcast':
                        # a member port is being closed by the application meanwhile: this send may fail with
                        # ValueError/OSError (then some clients do not get this message); one that returns
                        # normally has reached every client that stays connected
                        inv, r = guarded(f'S{si}', 'send', port.send, m, tolerate=(ValueError, OSError))
                        record(f'S{si}', 'send', inv, (si, seq))
                        if r is not DEVERR:
                            bcast_ok.append(snap_msg(orig))
                        continue
                    inv, _ = guarded(f'S{si}', 'send', (subs[si % 2] if kind == 'pair' else port).send, m)
                    record(f'S{si}', 'send', inv, (si, seq))
                    if plan['mutate_after_send']:
                        mutate(m)
                done['senders'] += 1
            return body

        def pq_driver(si):
            # sender 0 is the device driver thread feeding bytes in chunks; others call put(msg)
            msgs = [make_msg(shape, si, seq, pad) for seq, (shape, pad) in enumerate(plan['senders'][si])]
            whole = plan.get('pq_whole', False)
            if si == 0 and not whole:
                data = []
                for seq, m in enumerate(msgs):
                    sent.append((si, seq, m.copy(), sched.total_steps, m))
                    data.extend(m.bytes())
                pos = 0
                ci = 0
                while pos < len(data):
                    size = plan['chunks'][ci % len(plan['chunks'])]
                    ci += 1
                    inv, _ = guarded('S0', 'put_bytes', port._queue.put_bytes, data[pos:pos + size])
                    pos += size
                record('S0', 'put_bytes', sched.total_steps, len(data))
            else:
                # whole messages only: put(msg) as the rtmidi callback does, or put_bytes(one or several
                # complete encodings in one call)
                batch = plan.get('pq_batch') or [1]
                seq = 0
                bi = si
                while seq < len(msgs):
                    n = max(1, batch[bi % len(batch)])
                    bi += 1
                    group = msgs[seq:seq + n]
                    for j, m in enumerate(group):
                        sent.append((si, seq + j, m.copy(), sched.total_steps, m))
                    if whole and (n > 1 or (seq + si) % 2 == 0):
                        data = [b for m in group for b in m.bytes()]
                        inv, _ = guarded(f'S{si}', 'put_bytes', port._queue.put_bytes, data)
                        record(f'S{si}', 'put_bytes', inv, (si, seq, len(group)))
                    else:
                        for j, m in enumerate(group):
                            inv, _ = guarded(f'S{si}', 'put', port._queue.put, m)
                            record(f'S{si}', 'put', inv, (si, seq + j))
                    seq += len(group)
            done['senders'] += 1

        def target(tgt):
            if tgt >= 0 and subs and kind.startswith('multi'):
                return subs[tgt % len(subs)]
            return port

        def got(th, op, inv, res, tgt):
            if res is DEVERR:
                return
            progress['last'] = sched.total_steps
            progress['idle'] = 0
            record(th, op, inv, res if res is None else (repr(res)))
            if res is not None:
                # freeze the value at hand-over; afterwards the receiver may edit its message
                live = res[1] if isinstance(res, tuple) and len(res) == 2 else res
                frozen = res
                if isinstance(live, mido.Message):
                    clone = mido.Message.__new__(mido.Message)
                    vars(clone).update({k: (type(v)(v) if isinstance(v, tuple) else v) for k, v in vars(live).items()})
                    clone_ids[id(clone)] = live
                    frozen = (res[0], clone) if isinstance(res, tuple) else clone
                    if plan.get('receivers_mutate') and kind not in ('pq', 'pq_raw'):
                        mutate(live)
                        stats['fault:receiver_mutates_message'] += 1
                received.append((th, op, inv, sched.total_steps, frozen, tgt))

        received = []
        clone_ids = {}

        def close_gen(it):
            # dropping a suspended generator runs its frame once more (GeneratorExit); that is
            # interpreter housekeeping, not a step of the program under test
            sched.atomic_depth += 1
            try:
                if hasattr(it, 'close'):
                    it.close()
            finally:
                sched.atomic_depth -= 1

        curop = {}

        def receiver_body(ri):
            th = f'R{ri}'

            def body():
                for op in plan['receivers'][ri]:
                    k, tgt = op[0], op[1]
                    if kind == 'pair':
                        tgt = ri % 2
                    p = subs[tgt] if kind == 'pair' else target(tgt)
                    curop[th] = k
                    if k == 'poll':
                        inv, res = guarded(th, 'poll', p.poll)
                        got(th, 'poll', inv, res, tgt)
                    elif k == 'receive':
                        waiting[th] = p
                        inv, res = guarded(th, 'receive', p.receive)
                        waiting[th] = None
                        got(th, 'receive', inv, res, tgt)
                    elif k == 'iter_pending':
                        inv = sched.total_steps
                        it = p.iter_pending()
                        n = 0
                        while True:
                            try:
                                inv, res = guarded(th, 'iter_pending', next, it)
                            except Violation as v:
                                if 'StopIteration' in v.sig:
                                    errors.pop()
                                    break
                                raise
                            got(th, 'iter_pending', inv, res, tgt)
                            n += 1
                            if n > 200:
                                raise Violation('iter_pending-unbounded', 'iter_pending yielded > 200 messages')
                        close_gen(it)
                    else:
                        it = iter(p)
                        for _ in range(op[2]):
                            try:
                                waiting[th] = p if not isinstance(p, mports.EchoPort) else None
                                inv, res = guarded(th, 'iter', next, it)
                                waiting[th] = None
                            except Violation as v:
                                if 'StopIteration' in v.sig:
                                    errors.pop()
                                    break
                                raise
                            got(th, 'iter', inv, res, tgt)
                        waiting[th] = None
                        close_gen(it)
                curop[th] = None
            return body

        waiting = {}         # receiver thread -> port it is inside a blocking call on
        starving = collections.Counter()

        def port_deliverable(p):
            n = len(getattr(p, '_messages', ()))
            w = getattr(p, 'wire', None)
            if w is not None:
                n += len(w.buf)
            q = getattr(p, '_queue', None)
            if q is not None:
                n += q._queue.qsize()
            if isinstance(p, mports.IOPort):
                n += port_deliverable(p.input)
            if isinstance(p, mports.MultiPort):
                n += sum(port_deliverable(x) for x in p.ports if not x.closed)
            return n

        def deliverable():
            n = 0
            for w in wires:
                n += len(w.buf)
            allp = [port] + list(subs)
            for p in allp:
                n += len(getattr(p, '_messages', ()))
                q = getattr(p, '_queue', None)
                if q is not None:
                    n += q._queue.qsize()
            return n

        def on_idle():
            # nothing is runnable: only sleepers (receivers polling inside a blocking receive) remain
            hungry = [(th, p) for th, p in waiting.items() if p is not None and port_deliverable(p) > 0]
            if kind == 'sock_close':
                # the reader must wake up and notice that the port was closed under it
                progress['idle'] += 1
                return 'continue' if progress['idle'] < 40 else 'stop'
            if done['senders'] >= n_send and not hungry:
                return 'stop'       # quiescent: nobody left who could make progress
            progress['idle'] += 1
            for th, p in waiting.items():
                if p is not None and port_deliverable(p) > 0:
                    starving[th] += 1
                    if starving[th] > 25:
                        progress['starved'] = (th, port_deliverable(p))
                        return 'stop'
                else:
                    starving[th] = 0
            if progress['idle'] > 100:
                return 'stop'
            return 'continue'
        sched.on_idle = on_idle

        sock_expected = []
        if kind == 'sock_close':
            raw = self._raw
            for seq, (shape, pad) in enumerate(plan['senders'][0]):
                m = make_msg(shape, 0, seq, pad)
                sock_expected.append(snap_msg(m))
                raw.tx.inflight += bytes(m.bytes())
            self._net.deliver(raw.tx)
        twin_ref = {}
        twin_files = []
        if kind == 'twin_files':
            from .playback import build_msg
            for si, f in enumerate(plan['files']):
                tracks = [mido.MidiTrack(build_msg(e[1:], e[0]) for e in tr) for tr in f['tracks']]
                mf = mido.MidiFile(type=1, ticks_per_beat=f['tpb'], tracks=tracks)
                twin_files.append(mf)
                seq = [snap_msg(m) for m in mf]
                ln = repr(mf.length)
                twin_ref[si] = [seq, ln, seq, ln]
        victim = getattr(self, '_recv_victim', None)
        self._recv_victim = None
        if victim is not None:
            victim[0].recv_calls = 0            # armed once the threads start (not during earlier traffic)
            victim[0].recv_fail_at = victim[1]
            stats['fault:device_read_error_armed'] += 1
        for si in range(n_send):
            sched.spawn(f'S{si}', sender_body(si))
        for ri in range(len(plan['receivers'])):
            sched.spawn(f'R{ri}', receiver_body(ri))
        sched.run()
        log.ev('end', sched.abort_reason, round(sched.now - sched.start_time, 6))
        stats['end:' + str(sched.abort_reason)] += 1

        # ---- exceptions that escaped thread bodies
        for t in sched.threads:
            if isinstance(t.exc, Violation):
                raise t.exc
            if t.exc is not None:
                raise t.exc   # harness error
        stuck = [t.name for t in sched.threads if t.state_at_abort in ('blocked', 'sleeping')
                 and curop.get(t.name) in ('poll', 'iter_pending')]
        if stuck and sched.abort_reason in ('deadlock', 'quiescent', 'stepcap'):
            raise Violation(f'nonblocking-call-blocked@{kind}',
                            f'{stuck} never returned from a non-blocking {curop[stuck[0]]} (run ended: '
                            f'{sched.abort_reason})')
        if sched.abort_reason == 'deadlock' and all(
                isinstance(t.waiting_on, simsync._Waiter) for t in sched.threads if t.state_at_abort == 'blocked') \
                and done['senders'] >= n_send and deliverable() == 0:
            # receivers parked in a blocking queue.get() with nothing left to deliver: quiescent
            stats['end:quiescent-blocked-get'] += 1
        elif sched.abort_reason == 'deadlock':
            held = [f'{type(t.waiting_on).__name__}' for t in sched.threads if t.state_at_abort == 'blocked']
            raise Violation(f'deadlock@{kind}', f'all remaining threads blocked forever ({held})')
        if sched.abort_reason == 'stepcap':
            hungry = [(th, port_deliverable(p)) for th, p in waiting.items()
                      if p is not None and port_deliverable(p) > 0]
            if hungry or done['senders'] < n_send:
                raise Violation(f'no-progress@{kind}', f'step cap reached with {done["senders"]}/{n_send} senders done '
                                                       f'and blocked receivers with deliverable items: {hungry}')
        if progress.get('starved'):
            raise Violation(f'blocked-receiver-starved@{kind}',
                            f'{progress["starved"][0]} stayed inside a blocking receive for 25 idle rounds of the '
                            f'simulated clock while {progress["starved"][1]} item(s) were deliverable on its port')

        if kind == 'server_bcast':
            net = self._net
            for raw in self._raws:
                if raw.rx is not None:
                    net.deliver(raw.rx)
            while net.next_event_time() is not None:
                sched.now = max(sched.now, net.next_event_time())
                net.pump()
            want = [snap_msg(orig) for _, _, orig, _, _ in sent]
            closed_i = plan['closed_client'] % plan['n_clients']
            for ci, raw in enumerate(self._raws[:plan['n_clients']]):
                data = bytes(raw.rx.buf)
                try:
                    have = [snap_msg(m) for m in mido.parse_all(data)]
                except Exception as e:
                    raise Violation('server:client-stream-corrupt', f'client {ci} received {data.hex(" ")}: {e!r}')
                # in order, nothing but what was sent ...
                it = iter(want)
                ok = all(any(h == w for w in it) for h in have)
                # ... and, for a client that stays connected, every broadcast whose send() returned normally
                if ok and ci != closed_i and sched.abort_reason != 'stepcap':
                    it = iter(have)
                    ok = all(any(b == h for h in it) for b in bcast_ok)
                if not ok:
                    raise Violation('server:broadcast-missed' if len(have) < len(want) else 'server:broadcast-wrong',
                                    f'the server sent {want!r}; client {ci} (connected throughout'
                                    f'{", its port closed by the application" if ci == closed_i else ""}) received {have!r}')
            cov.add('server_bcast')
            stats['probe:server_broadcast_during_accept'] += 1
            stats['fault:client_port_closed_during_broadcast'] += 1
            return
        if kind == 'sock_close':
            for t in sched.threads:
                if isinstance(t.exc, Violation):
                    raise t.exc
            stuck = [t.name for t in sched.threads if t.state_at_abort in ('blocked', 'sleeping')]
            if stuck:
                raise Violation('sock:close-with-blocked-reader',
                                f'one thread iterates a SocketPort, another calls close(): {stuck} never finished '
                                f'(run ended: {sched.abort_reason})')
            net = self._net
            while net.next_event_time() is not None:
                sched.now = max(sched.now, net.next_event_time())
                net.pump()
            if not (self._raw.rx.eof or self._raw.rx.rst):
                raise Violation('sock:close-not-seen-by-peer', 'the port was closed while a reader thread was iterating '
                                                               'it, but the peer never reached end-of-stream')
            got_msgs = [snap_msg(res) for th, op, inv, ret, res, tgt in received]
            if got_msgs != sock_expected[:len(got_msgs)]:
                raise Violation('sock:wrong-messages', f'reader got {got_msgs!r}, delivered were {sock_expected!r}')
            cov.add('sock_close')
            stats['probe:socket_closed_under_reader'] += 1
            return
        if kind == 'twin_files':
            if sched.abort_reason not in ('stepcap',):
                for si, outs in sorted(twin_out.items()):
                    if outs != twin_ref[si]:
                        raise Violation('threads:files-not-independent',
                                        f'thread {si} iterating/measuring its own MidiFile while another thread did the '
                                        f'same with another file got {str(outs)[:300]}..., alone it gives '
                                        f'{str(twin_ref[si])[:300]}...')
            cov.add('twin_files')
            stats['probe:twin_file_threads'] += 1
            return
        if kind == 'twin_parsers':
            # the references are computed only now, sequentially: nothing may have decoded a message in this
            # process before the threads did (first-use initialisation is part of what the threads race for)
            from mido.parser import Parser
            for si, w in enumerate(plan['wires']):
                try:
                    twin_ref[si] = [snap_msg(m) for m in Parser(list(w))]
                except Exception:
                    twin_ref[si] = None
            if sched.abort_reason not in ('stepcap',):
                for si, outs in sorted(twin_out.items()):
                    ref = twin_ref.get(si)
                    if ref is None:
                        continue
                    for o in outs:
                        if o != ref:
                            raise Violation('threads:parsers-not-independent',
                                            f'thread {si} ({plan["twin_api"][si]}) parsing {bytes(plan["wires"][si]).hex(" ")} '
                                            f'got {o!r} while another thread was parsing its own data; alone it gives '
                                            f'{ref!r}')
            cov.add('twin_parsers|' + '+'.join(plan['twin_api']))
            stats['probe:twin_parser_threads'] += 1
            return
        # ---- final drain by the controlling thread (scheduler no longer active)
        mports.time = simsync.TimeShim(sched)
        drained = []
        for p in list(subs) + [port]:
            if isinstance(p, LockedDev):
                p.recv_fail_at = None       # faults are over: what is still there must come out now
        try:
            if kind in ('pq', 'pq_raw'):
                drained = [(m, -1) for m in port._queue.iterpoll()]
            else:
                for tgt, p in ([(-1, port)] if kind != 'pair' else []) + \
                        [(i, s) for i, s in enumerate(subs) if kind.startswith('multi') or kind == 'pair']:
                    for m in p.iter_pending():
                        drained.append((m, tgt))
        except Exception as e:
            raise Violation(f'raised:{type(e).__name__}@{kind}.final-drain', f'final drain raised {e!r}')

        # a run cut short by the step cap (without a starved receiver) is incomplete, not wrong: an
        # operation that was in flight when the run was aborted may hold a message that nobody got
        incomplete = sched.abort_reason == 'stepcap'
        if incomplete:
            stats['incomplete_runs_stepcap'] += 1
        if kind == 'pq_raw':
            if not incomplete:
                self._check_raw(plan, hist, received, drained, fed_log, stats, cov)
        else:
            self._check_history(plan, kind, sent, received, drained, wires, subs, stats, cov, sched,
                                incomplete=incomplete, clone_ids=clone_ids)
        for p in [port] + list(subs):
            try:
                p.close()
            except Exception:
                pass

    # ------------ C05 mode B oracle (ParserQueue fed raw bytes by a driver thread, concurrent consumers)
    def _check_raw(self, plan, hist, received, drained, fed_log, stats, cov):
        from mido.parser import Parser
        wire = plan['wire']
        try:
            ref = list(Parser(list(wire))) if wire else []
            p2 = Parser()
            cnt = [0]
            for b in wire:
                p2.feed_byte(b)
                cnt.append(cnt[-1] + len(list(p2)))
        except Exception:
            stats['ref_raised'] += 1
            return
        refr = [repr(m) for m in ref]
        got_all = [repr(m) for _, _, _, _, m, _ in received] + [repr(m) for m, _ in drained]
        if collections.Counter(got_all) != collections.Counter(refr):
            raise Violation('threads:multiset-mismatch', f'consumers got {got_all}, one-shot reference is {refr}')
        per = collections.defaultdict(list)
        for th, op, inv, ret, m, _ in received:
            per[th].append(repr(m))
        if drained and len(per) == 0:
            per['main'] = [repr(m) for m, _ in drained]
        for th, seq in per.items():
            i = 0
            for x in seq:
                while i < len(refr) and refr[i] != x:
                    i += 1
                if i >= len(refr):
                    raise Violation('threads:consumer-order', f'{th} saw {seq}, not in the order of the reference {refr}')
                i += 1
        if len(set(refr)) == len(refr):
            idx = {x: i for i, x in enumerate(refr)}
            ops = sorted((inv, ret, idx[repr(m)], th) for th, op, inv, ret, m, _ in received)
            for a in range(len(ops)):
                for b in range(a + 1, len(ops)):
                    if ops[a][1] < ops[b][0] and ops[a][2] > ops[b][2]:
                        raise Violation('threads:realtime-order', f'{ops[a][3]} finished getting message #{ops[a][2]} '
                                                                  f'before {ops[b][3]} started the get that returned '
                                                                  f'#{ops[b][2]}')
        # poll() returning None although the queue cannot have been empty at any point inside the call
        gets = [(inv, ret) for th, op, inv, ret, res in hist if op in ('poll', 'receive', 'iter_pending', 'iter')
                and res is not None and not str(res).startswith('raised')]
        for th, op, inv, ret, res in hist:
            if op == 'poll' and res is None:
                stats['probe:get_on_empty_threads'] += 1
                fed = max([n for step, n in fed_log if step < inv] or [0])
                surely_put = cnt[fed]
                maybe_taken = sum(1 for ginv, gret in gets if ginv < ret)
                if surely_put - maybe_taken > 0:
                    raise Violation('threads:poll-none-but-nonempty',
                                    f'{th}.poll returned None during steps [{inv},{ret}] although {surely_put} messages '
                                    f'had been put before it started and at most {maybe_taken} could have been taken')
        cov.add(f'pq_raw|r{len(plan["receivers"])}')
        if len(per) > 1:
            stats['probe:two_consumers_got_messages'] += 1

    # ------------ history oracle
    def _check_history(self, plan, kind, sent, received, drained, wires, subs, stats, cov, sched, incomplete=False,
                       clone_ids=None):
        n_sub = len(subs) if kind.startswith('multi') else 1
        by_id = {}
        for si, seq, orig, inv, obj in sent:
            by_id[(si, seq)] = (orig, inv, obj)
        anon_wire = collections.Counter()
        sent_rt = collections.Counter(anon_kind(orig) for _, _, orig, _, _ in sent if anon_kind(orig))
        anon_rx = collections.Counter()
        # wire image: concatenation of complete encodings of sent messages
        for w in wires:
            pos = 0
            log = w.log[w.start:]
            anon_wire = collections.Counter()
            while pos < len(log):
                # a complete encoding starts with a status byte and runs to the next status byte / F7
                if log[pos] < 0x80:
                    raise Violation(f'wire-mixed@{kind}', f'wire image has a data byte where a message should start '
                                                          f'(offset {pos}): {bytes(log).hex(" ")}')
                end = pos + 1
                if log[pos] == 0xF0:
                    while end < len(log) and log[end] != 0xF7:
                        if log[end] >= 0x80:
                            raise Violation(f'wire-mixed@{kind}', f'status byte inside a sysex on the wire: '
                                                                  f'{bytes(log).hex(" ")}')
                        end += 1
                    end += 1
                else:
                    while end < len(log) and log[end] < 0x80:
                        end += 1
                try:
                    m = mido.Message.from_bytes(log[pos:end])
                    if anon_kind(m):
                        anon_wire[anon_kind(m)] += 1
                        ok = True
                    else:
                        ok = ident(m) in by_id and m == by_id[ident(m)][0]
                except Exception:
                    ok = False
                if not ok:
                    raise Violation(f'wire-mixed@{kind}', f'wire image is not a concatenation of the sent encodings: '
                                                          f'{bytes(log).hex(" ")}')
                pos = end
            if log and not incomplete and anon_wire != sent_rt and kind not in ('pq', 'pair'):
                raise Violation(f'wire-mixed@{kind}', f'real-time bytes on a device wire {dict(anon_wire)} differ from '
                                                      f'the real-time messages sent {dict(sent_rt)}')
        # exactly once, intact, copy
        counts = collections.Counter()
        allrec = [(th, op, inv, ret, m, tgt) for th, op, inv, ret, m, tgt in received] + \
                 [('main', 'drain', 10 ** 9, 10 ** 9, m, tgt) for m, tgt in drained]
        for th, op, inv, ret, res, tgt in allrec:
            m = res
            sub = None
            if isinstance(res, tuple):
                if kind != 'multi_yield' or tgt >= 0:
                    raise Violation(f'unexpected-tuple@{kind}', f'{op} returned {res!r}')
                sub, m = res
            if not isinstance(m, mido.Message):
                raise Violation(f'not-a-message@{kind}', f'{op} returned {res!r}')
            key = ident(m)
            if key is None and anon_kind(m) and not vars(m).get('time'):
                anon_rx[anon_kind(m)] += 1      # came through a byte-wise device: identity (time) not transmitted
                continue
            if key not in by_id:
                raise Violation(f'corrupt-or-invented@{kind}', f'{th}.{op} returned {m!r}, which no sender sent '
                                                               f'(mixed, mutated or invented)')
            orig, sinv, obj = by_id[key]
            if kind == 'pair' and tgt != key[0] % 2:
                raise Violation('cross-port@pair', f'{th}.{op} on port {tgt} returned {m!r}, which was sent on the other, '
                                                   f'independent port')
            if m != orig:
                raise Violation(f'corrupt-or-mutated@{kind}', f'{th}.{op} returned {m!r}, sent was {orig!r}')
            if obj is not None and (m is obj or (clone_ids or {}).get(id(m)) is obj) and kind != 'pq':
                raise Violation(f'not-a-copy@{kind}', f'{th}.{op} returned the very object that was sent')
            if ret < sinv:
                raise Violation(f'received-before-sent@{kind}', f'{m!r} received at {ret} but send invoked at {sinv}')
            counts[key] += 1
        # real-time messages: counted per type (those that crossed a byte-wise device carry no identity)
        anon_ids = set()
        if anon_rx:
            rx_rt = collections.Counter(anon_rx)
            for key, n in counts.items():
                if anon_kind(by_id[key][0]):
                    rx_rt[anon_kind(by_id[key][0])] += n
            for t in set(rx_rt) | set(sent_rt):
                n = rx_rt[t]
                if n > sent_rt[t] * n_sub or (n < sent_rt[t] * n_sub and not incomplete):
                    raise Violation(f'{"lost" if n < sent_rt[t] * n_sub else "duplicated"}@{kind}',
                                    f'{n} {t} message(s) received, {sent_rt[t]} sent (x{n_sub})')
            anon_ids = {k for k, v in by_id.items() if anon_kind(v[0])}
        for key in by_id:
            exp = n_sub
            if key in anon_ids:
                continue
            if incomplete and counts[key] <= exp:
                continue
            if counts[key] != exp:
                raise Violation(f'{"lost" if counts[key] < exp else "duplicated"}@{kind}',
                                f'message {key} ({by_id[key][0]!r}) was received {counts[key]} time(s), '
                                f'expected {exp}; sent {len(by_id)}, received {sum(counts.values())}')
        # order per (sender, receiver[, sub-port]) and real-time order across receivers
        if n_sub == 1 or kind == 'multi_yield':
            last = {}
            ops_by_sender = collections.defaultdict(list)
            for th, op, inv, ret, res, tgt in allrec:
                m = res
                subid = tgt
                if isinstance(res, tuple):
                    subid = 100 + (subs.index(res[0]) if res[0] in subs else -2)
                    m = res[1]
                elif n_sub > 1 and tgt < 0:
                    continue    # fan-in without yield_ports: origin unknown
                key = ident(m)
                if key is None:
                    continue        # anonymous real-time message (identity not transmitted by a byte device)
                si, seq = key
                k = (si, th, subid)
                if k in last and seq <= last[k]:
                    raise Violation(f'reordered@{kind}', f'{th} received seq {seq} of sender {si} after seq {last[k]}')
                last[k] = seq
                ops_by_sender[(si, subid)].append((inv, ret, seq, th))
            for k, ops in ops_by_sender.items():
                ops.sort()
                for i, (inv_a, ret_a, seq_a, th_a) in enumerate(ops):
                    for inv_b, ret_b, seq_b, th_b in ops[i + 1:]:
                        if ret_a < inv_b and seq_a > seq_b:
                            raise Violation(f'reordered-realtime@{kind}',
                                            f'{th_a} finished receiving seq {seq_a} of sender {k[0]} before {th_b} '
                                            f'started the receive that returned seq {seq_b}')
        threads_used = {th for th, *_ in received}
        if len(threads_used) > 1:
            stats['probe:two_receivers_got_messages'] += 1
        cov.add(f'{kind}|s{len(plan["senders"])}|r{len(plan["receivers"])}')

    # ------------ shrinking
    def shrink(self, prop, plan):
        yield from shrink_list_at(plan, ('decisions',))
        yield from shrink_list_at(plan, ('receivers',), min_len=1)
        yield from shrink_list_at(plan, ('senders',), min_len=1)
        for i in range(len(plan['senders'])):
            yield from shrink_list_at(plan, ('senders', i), min_len=1)
        for i in range(len(plan['receivers'])):
            yield from shrink_list_at(plan, ('receivers', i), min_len=1)
        if plan['mutate_after_send']:
            yield replace_at(plan, ('mutate_after_send',), False)
        if plan.get('receivers_mutate'):
            yield replace_at(plan, ('receivers_mutate',), False)
        if plan.get('prelude'):
            yield replace_at(plan, ('prelude',), False)
        if plan['n_sub'] > 1:
            yield replace_at(plan, ('n_sub',), plan['n_sub'] - 1)
        for i, s in enumerate(plan['senders']):
            for j, (shape, pad) in enumerate(s):
                if shape != 'note_on':
                    yield replace_at(plan, ('senders', i, j, 0), 'note_on')
                elif pad:
                    yield replace_at(plan, ('senders', i, j, 1), 0)

    def same_signature(self, a, b):
        return a == b

    def rule(self, prop):
        return ('Each run: a small program of 1-3 sender threads and 1-3 receiver threads over one port kind '
                '(lock-protected device port old/new style, EchoPort, IOPort wrapper, MultiPort with/without '
                'yield_ports, ParserQueue-backed rtmidi-shaped port), executed under a seeded scheduler (random walk, '
                'PCT priorities with change points, round-robin with random quantum) that pre-empts at every line of '
                'mido/ports.py, parser.py, tokenizer.py, _parser_queue.py and at every simulated lock/queue/sleep '
                'operation and device byte. Non-trivial = at least one context switch actually taken.')

    def coverage_report(self, prop, cov):
        return {'port_kind_x_senders_x_receivers_cells_hit': len(cov), 'cells': sorted(cov)}

    def components(self, prop):
        return {'real': ['mido.ports (BasePort/BaseInput/BaseOutput/BaseIOPort/IOPort/EchoPort/MultiPort/multi_receive)',
                         'mido.parser.Parser', 'mido.tokenizer.Tokenizer', 'mido.backends._parser_queue.ParserQueue',
                         'mido.messages (copy, bytes, from_bytes)'],
                'stub': ['threading.RLock -> SimRLock', 'queue.Queue -> SimQueue', 'time.sleep -> virtual clock',
                         'random.shuffle -> decision', 'device below _send/_receive (byte-wise wire double)',
                         'OS thread scheduling -> baton passing under simkit.sched'],
                'not_run': ['C-library backends']}

    def assumptions(self, prop):
        return ['Pre-emption is at line granularity in the files under test; races inside one line are not explored.',
                'deque.append/popleft are atomic (CPython).',
                'Messages carry a unique (sender, seq) identity in their fields; senders only mutate their own '
                'object after send() returned.']

    def probe_names(self, prop):
        return ['lock_contended', 'two_receivers_got_messages']


ENGINE = PortsConc()
