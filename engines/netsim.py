"""Engine `netsim` - mido.sockets over a simulated TCP network (DESIGN 3: C18).

Real code: mido.sockets (SocketPort, PortServer, connect, parse_address, format_address),
mido.ports base classes, Parser/Tokenizer. Stubs: socket, select (simkit.simnet), time.sleep
(virtual clock), random.shuffle.

Scenario 1: raw peer, *complete sweep over every cut offset* of its byte stream (FIN or RST).
Scenario 2: two real ports (connect() <-> PortServer.accept()), one side closes.
Scenario 3: server fan-in from 1-3 raw clients connecting, sending and disconnecting at
            planned moments.
"""
import collections
import gc
import math

from simkit import bootstrap
from simkit.choice import rng_for, Log, pick, weighted
from simkit.sched import SimAbort
from simkit import simnet, model, simtime
from simkit.shrink import shrink_list_at, replace_at
from . import BaseEngine, Violation
from .ports_conc import make_msg, ident
from .lifecycle import Clock, TimeShim, RandomShim

mido = bootstrap()
import mido.ports as mports  # noqa: E402
import mido.sockets as msock  # noqa: E402

HOSTS = ('', 'localhost', '127.0.0.1', '0.0.0.0', 'example.org', 'a', '10.1.2.3', 'host-name.local',
         '[a]', '[fe80--1]', 'a]', '[b', ' h ', 'h/x', '0', 'h.', 'xn--bcher-kva.example', '%41', 'h\\x')
PORTS = (1, 2, 80, 1023, 1024, 8080, 9080, 32767, 32768, 65534, 65535)
CONSUMERS = ('iter', 'receive', 'poll', 'iter_pending', 'iter_break')
SHAPES = ('note_on', 'control_change', 'program_change', 'pitchwheel', 'sysex', 'songpos', 'note_off')


def _eq(a, b):
    try:
        return a == b
    except Exception:
        return False


class Snap:
    """Value of a message frozen at the moment it was received (the consumer may edit the object later)."""
    __slots__ = ('v', 'r')

    def __init__(self, m):
        try:
            self.v = (type(m).__name__, tuple(sorted((k, tuple(x) if isinstance(x, (list, tuple)) else x)
                                                     for k, x in vars(m).items())))
        except Exception:
            self.v = ('?', repr(m))
        self.r = repr(m)

    def __eq__(self, other):
        return isinstance(other, Snap) and self.v == other.v

    def __repr__(self):
        return self.r


def consumer_edit(m):
    try:
        if m.type in ('note_on', 'note_off'):
            m.note = (m.note + 12) % 128
            m.channel = (m.channel + 5) % 16
        elif m.type == 'control_change':
            m.value = 127 - m.value
        elif m.type == 'program_change':
            m.program = (m.program + 1) % 128
        elif m.type == 'sysex':
            m.data = [9, 9]
        m.time = 555
    except Exception:
        pass


class NetSim(BaseEngine):
    name = 'netsim'

    def level(self, prop):
        return 'fault_enumeration'

    def tiers(self, prop):
        return {'quick': 100_000, 'thorough': 2_500_000}

    # ------------------------------------------------------------------ generation
    def gen(self, prop, seed, idx, tier):
        rng = rng_for(prop, seed, idx, 'plan')
        if idx % 60 == 31:
            # threads: a reader iterating a socket port while another thread closes it
            from .ports_conc import ENGINE as PC
            plan = PC.gen_sock_close(prop, seed, idx, rng)
            plan['scn'] = 4
            return plan
        scn = weighted(rng, ((1, 5), (2, 2), (3, 3)))
        plan = {'prop': prop, 'scn': scn, 'mutate': rng.random() < 0.3,
                'sleep_time': pick(rng, (1e-4, 1e-3, 1e-2, 0.5)),
                'start_time': pick(rng, (0.0, 100.0, 1.7e9)),
                'host': pick(rng, HOSTS), 'port': pick(rng, PORTS + (rng.randint(1, 65535),)),
                'epipe_after': rng.randrange(2), 'first_fd': pick(rng, (10, 10, 10, 3, 0)),
                'autoreset': rng.random() < 0.15,
                'rst_keep': rng.random() < 0.5}
        if scn == 1:
            types = pick(rng, (model.ALL_TYPES, model.NON_RT_TYPES, ('sysex', 'note_on', 'clock'),
                               model.CHANNEL_TYPES))
            msgs = []
            total = 0
            repeat = rng.random() < 0.3
            while total < 60 and len(msgs) < rng.randint(1, 8):
                d = dict(pick(rng, msgs)) if (repeat and msgs and rng.random() < 0.6) else \
                    model.gen_msg(rng, types, sysex_max=8)
                total += len(model.ref_bytes(d))
                msgs.append(d)
            rts = []
            for i, d in enumerate(msgs):
                if d['type'] == 'sysex' and rng.random() < 0.5:
                    n = len(d['data'])
                    for _ in range(rng.randint(1, 2)):
                        rts.append([i, rng.randint(1, n + 1), pick(rng, model.RT_DEFINED)])
            cuts = None
            if idx % 300 == 17:
                # one connection carrying a long run of large sysex messages (only 1-byte messages in between)
                msgs = []
                for k in range(rng.randint(70, 90)):
                    msgs.append({'type': 'sysex', 'data': [(k + i) % 128 for i in range(rng.randint(900, 1100))]})
                    if rng.random() < 0.5:
                        msgs.append({'type': pick(rng, ('clock', 'tune_request'))})
                rts = []
                cuts = [10 ** 9]
                if rng.random() < 0.5:
                    # everything (a whole number of kibibytes) and the disconnect are pending before the first read
                    total = sum(len(model.ref_bytes(d)) for d in msgs)
                    pad = (-total - 2) % 1024
                    msgs.append({'type': 'sysex', 'data': [7] * pad})
                    plan['kib_aligned'] = True
            plan.update({'msgs': msgs, 'rt': rts, 'cuts': cuts,
                         'end': 'rst' if rng.random() < 0.2 else 'fin',
                         'segs': [[pick(rng, (0.0, 0.0, 0.0003, 0.002, 0.05)), pick(rng, (1, 1, 2, 3, 5, 64))]
                                  for _ in range(rng.randint(1, 6))] if cuts is None else
                         ([[0.0, 1 << 22]] if plan.get('kib_aligned') else [[0.001, 4096]]),
                         'fin_dt': 0.0 if plan.get('kib_aligned') else pick(rng, (0.0, 0.0, 0.001, 0.1)),
                         'consumer': pick(rng, CONSUMERS), 'via': pick(rng, ('conn', 'connect')),
                         'poll_advance': pick(rng, (0.0005, 0.004, 0.3))})
        elif scn == 2:
            plan.update({'a2b': [[pick(rng, SHAPES), rng.randrange(128)] for _ in range(rng.randint(0, 5))],
                         'b2a': [[pick(rng, SHAPES), rng.randrange(128)] for _ in range(rng.randint(0, 5))],
                         'order': [rng.randrange(2) for _ in range(10)],
                         'closer': pick(rng, ('client', 'server_conn')),
                         'latency': pick(rng, (0.0, 0.0005, 0.01, 0.2)),
                         'consumer': pick(rng, CONSUMERS), 'poll_advance': pick(rng, (0.0005, 0.004, 0.3)),
                         'reader_before_close': rng.random() < 0.5, 'late_sends': pick(rng, (0, 0, 1, 2, 3)),
                         'server_polls': pick(rng, (0, 0, 1, 3))})
        else:
            clients = []
            for c in range(rng.randint(1, 3)):
                msgs = [[pick(rng, SHAPES), rng.randrange(128)] for _ in range(rng.randint(0, 4))]
                clients.append({'connect_at': pick(rng, (0.0, 0.0, 0.001, 0.05, 0.4)),
                                'msgs': msgs,
                                'segs': [[pick(rng, (0.0, 0.0, 0.0003, 0.002, 0.05)), pick(rng, (1, 2, 3, 5, 64))]
                                         for _ in range(rng.randint(1, 4))],
                                'cut': None if rng.random() < 0.5 else rng.randint(0, 20),
                                'disconnect': rng.random() < 0.6, 'fin_dt': pick(rng, (0.0, 0.001, 0.1)),
                                'reset': rng.random() < 0.25})
            ops = []
            for _ in range(rng.randint(2, 10)):
                k = weighted(rng, (('poll', 4), ('iter_pending', 2), ('receive', 2), ('advance', 3), ('iter', 1)))
                if k == 'advance':
                    ops.append([k, pick(rng, (0.0005, 0.004, 0.06, 0.5))])
                elif k == 'iter':
                    ops.append([k, rng.randint(1, 3)])
                else:
                    ops.append([k])
            if idx % 250 == 3:
                # a burst: many complete messages from several clients between two sweeps of the server
                for cl in clients:
                    cl.update({'bulk': rng.randint(400, 1500), 'cut': None, 'segs': [[0.3, 1 << 20]],
                               'connect_at': 0.0, 'disconnect': False})
                # all clients are accepted first (one per sweep), then the burst arrives in one piece
                ops = [['poll'], ['poll'], ['poll'], ['poll'], ['advance', 0.5],
                       [pick(rng, ('iter_pending', 'poll'))], ['advance', 0.1]]
            plan.update({'clients': clients, 'ops': ops, 'perms': [rng.randrange(3) for _ in range(4)]})
        return plan

    # ------------------------------------------------------------------ plumbing
    def abort_cleanup(self):
        self._restore()
        from .ports_conc import ENGINE as PC
        PC.abort_cleanup()

    def _restore(self):
        saved = getattr(self, '_saved', None)
        simtime.deactivate()
        if saved:
            mports.time, mports.random, msock.socket, msock.select = saved[0:4]
            mports.set_sleep_time(saved[4])
            self._saved = None
        if not gc.isenabled():
            gc.enable()

    def _world(self, plan, log):
        clock = Clock(plan['start_time'], plan['sleep_time'])
        net = simnet.SimNet(clock, log, first_fd=plan.get('first_fd', 10))
        mports.time = TimeShim(clock)
        mports.random = RandomShim(plan.get('perms', []))
        msock.socket = simnet.SocketShim(net)
        self._select = simnet.SelectShim(net)
        msock.select = self._select
        mports.set_sleep_time(plan['sleep_time'])
        simtime.activate(lambda: clock.now, mports.time.sleep)
        return clock, net

    def run(self, prop, plan, keep_log=False):
        if plan.get('scn') == 4:
            from .ports_conc import ENGINE as PC
            return PC.run(prop, plan, keep_log=keep_log)
        log = Log(keep_log)
        stats = collections.Counter()
        cov = set()
        self._saved = (mports.time, mports.random, msock.socket, msock.select, mports.get_sleep_time())
        gc.disable()
        viol = None
        final = None
        sim_s = 0.0
        try:
            try:
                if plan.get('addresses', True):
                    self._addresses(plan, stats)
                if plan['scn'] == 1:
                    sim_s, final = self._scn1(plan, log, stats, cov)
                elif plan['scn'] == 2:
                    sim_s = self._scn2(plan, log, stats, cov)
                else:
                    sim_s = self._scn3(plan, log, stats, cov)
            except Violation as v:
                viol = {'sig': v.sig, 'msg': v.msg}
                final = getattr(v, 'final_plan', None)
                log.ev('VIOLATION', v.sig)
        finally:
            self._restore()
        nontrivial = stats.pop('_nontrivial', 0) > 0
        out = {'viol': viol, 'digest': log.digest(), 'nontrivial': nontrivial, 'stats': stats, 'cov': cov,
               'events': log.events, 'sim_s': sim_s}
        if final is not None:
            out['final_plan'] = final
        return out

    def _addresses(self, plan, stats):
        h, p = plan['host'], plan['port']
        try:
            text = msock.format_address(h, p)
            back = msock.parse_address(text)
        except Exception as e:
            raise Violation('address-roundtrip', f'parse_address(format_address({h!r}, {p})) raised '
                                                 f'{type(e).__name__}: {e}')
        if back != (h, p):
            raise Violation('address-roundtrip', f'parse_address(format_address({h!r}, {p})) = {back!r} '
                                                 f'(formatted as {text!r})')
        canon = f'{h}:{p}'
        try:
            again = msock.format_address(*msock.parse_address(canon))
        except Exception as e:
            raise Violation('address-roundtrip', f'format_address(*parse_address({canon!r})) raised {e!r}')
        if again != canon:
            raise Violation('address-roundtrip', f'format_address(*parse_address({canon!r})) = {again!r}')
        stats['addresses_checked'] += 1

    def _check_release(self, plan, net):
        """C11 only: a port releases its device (here: closes its socket) exactly once."""
        if plan.get('prop') != 'C11':
            return
        for sk in net.all_sockets:
            if sk._io_refs != 0 or sk.close_calls > 1:
                if sk.close_calls > 1:
                    raise Violation('device-release-count@socket', f'a socket port closed its socket {sk.close_calls} '
                                                                   f'times (released more than once)')

    def _guard(self, where, fn, *a, expect=()):
        try:
            return ('ok', fn(*a))
        except SimAbort:
            return ('never-returned', None)
        except Violation:
            raise
        except BaseException as e:
            if expect and isinstance(e, expect):
                return ('raised', e.with_traceback(None))
            raise Violation(f'raised:{type(e).__name__}@{where}', f'{where} raised {type(e).__name__}: {e}')

    def _consume(self, port, consumer, clock, net, plan, log, tag, expect_close=True, allow_oserror=False,
                 max_rounds=400):
        """Drive one consumer style until the port reports closed (or nothing more can happen).
        Returns (messages, how_it_ended)."""
        got = []
        ended = None
        adv = plan.get('poll_advance', 0.004)

        def arm():
            nxt = net.next_event_time()
            clock.last_event = max(clock.last_event, nxt if nxt is not None else clock.now)
            clock.arm()
        if consumer == 'iter_break':
            # the application leaves its for-loop after every message and starts a new one later
            while True:
                arm()

                def one():
                    for m in port:
                        return m
                    return StopIteration
                tagr, res = self._guard(f'{tag}.iter', one, expect=(OSError,) if allow_oserror else ())
                if tagr == 'never-returned':
                    ended = 'never-returned'
                    break
                if tagr == 'raised':
                    ended = f'raised:{type(res).__name__}'
                    break
                if res is StopIteration:
                    ended = 'stop'
                    break
                got.append(Snap(res))
                log.ev(tag, 'iter_break', repr(res))
                if plan.get('mutate'):
                    consumer_edit(res)
                if len(got) > 500:
                    raise Violation(f'unbounded@{tag}', 'iteration yielded more than 500 messages')
        elif consumer == 'iter':
            it = iter(port)
            while True:
                arm()
                tagr, res = self._guard(f'{tag}.iter', lambda: next(it, StopIteration),
                                        expect=(OSError,) if allow_oserror else ())
                if tagr == 'never-returned':
                    ended = 'never-returned'
                    break
                if tagr == 'raised':
                    ended = f'raised:{type(res).__name__}'
                    break
                if res is StopIteration:
                    ended = 'stop'
                    break
                got.append(Snap(res))
                log.ev(tag, 'iter', repr(res))
                if plan.get('mutate'):
                    consumer_edit(res)
                if len(got) > 500:
                    raise Violation(f'unbounded@{tag}', 'iteration yielded more than 500 messages')
        elif consumer == 'receive':
            while True:
                arm()
                tagr, res = self._guard(f'{tag}.receive', port.receive, expect=(OSError, ValueError))
                if tagr == 'never-returned':
                    ended = 'never-returned'
                    break
                if tagr == 'raised':
                    ended = f'raised:{type(res).__name__}'
                    break
                got.append(Snap(res))
                log.ev(tag, 'receive', repr(res))
                if plan.get('mutate'):
                    consumer_edit(res)
                if len(got) > 500:
                    raise Violation(f'unbounded@{tag}', 'receive returned more than 500 messages')
        else:
            rounds = 0
            idle = 0
            while True:
                rounds += 1
                if rounds > max_rounds:
                    ended = 'rounds-exhausted'
                    break
                c0, s0 = clock.now, clock.sleep_calls
                arm()
                if consumer == 'poll':
                    tagr, res = self._guard(f'{tag}.poll', port.poll, expect=(OSError,) if allow_oserror else ())
                    batch = [res] if (tagr == 'ok' and res is not None) else []
                else:
                    tagr, res = self._guard(f'{tag}.iter_pending', lambda: list(port.iter_pending()),
                                            expect=(OSError,) if allow_oserror else ())
                    batch = res if tagr == 'ok' else []
                if tagr == 'never-returned':
                    ended = 'never-returned'
                    break
                if tagr == 'raised':
                    ended = f'raised:{type(res).__name__}'
                    break
                if clock.now != c0 or clock.sleep_calls != s0:
                    raise Violation(f'nonblocking-waited@{tag}.{consumer}',
                                    f'{consumer} advanced the clock by {clock.now - c0}s')
                for m in batch:
                    got.append(Snap(m))
                    log.ev(tag, consumer, repr(m))
                    if plan.get('mutate'):
                        consumer_edit(m)
                if not batch:
                    if port.closed:
                        ended = 'closed'
                        break
                    nxt = net.next_event_time()
                    if nxt is None:
                        idle += 1
                        if idle > 3:
                            ended = 'quiet'
                            break
                        clock.now += adv
                    else:
                        # discrete-event time: nothing can change before the next network event
                        clock.now = max(clock.now + adv, nxt)
                if len(got) > 500:
                    raise Violation(f'unbounded@{tag}', 'more than 500 messages')
        if consumer in ('iter', 'iter_break') and ended == 'stop':
            # the loop ended normally: everything the port had taken in must have come out of it
            try:
                rest = list(port.iter_pending())
            except Exception:
                rest = []
            if rest:
                raise Violation(f'iteration-stopped-early@{tag}', f'the for-loop over the port ended without an exception '
                                                                  f'while {len(rest)} message(s) it had taken in were '
                                                                  f'still queued: {rest!r}')
        return got, ended

    # ------------------------------------------------------------------ scenario 1
    def _stream(self, plan):
        """(bytes, [(end_offset, message)...] in order of completion)."""
        by_msg = collections.defaultdict(list)
        for i, pos, b in plan['rt']:
            by_msg[i].append((pos, b))
        stream = []
        items = []
        for i, d in enumerate(plan['msgs']):
            m = mido.Message(**d)
            enc = list(m.bytes())
            ins = by_msg.get(i, []) if d['type'] == 'sysex' else []
            if ins:
                n = len(enc) - 2
                pieces = collections.defaultdict(list)
                for pos, b in ins:
                    pieces[min(max(pos, 1), n + 1)].append(b)
                for j, byte in enumerate(enc):
                    for b in pieces.get(j, []):
                        stream.append(b)
                        items.append((len(stream), mido.Message(model.RT_BY_STATUS[b])))
                    stream.append(byte)
            else:
                stream.extend(enc)
            items.append((len(stream), m))
        return stream, items

    def _scn1(self, plan, log, stats, cov):
        stream, items = self._stream(plan)
        L = len(stream)
        cuts = plan['cuts'] if plan['cuts'] is not None else list(range(L + 1))
        sim_total = 0.0
        boundaries = {e for e, _ in items} | {0}
        for c in cuts:
            c = min(max(c, 0), L)
            try:
                sim_total += self._scn1_one(plan, stream, items, c, log, stats)
            except Violation as v:
                fp = dict(plan)
                fp['cuts'] = [c]
                v.final_plan = fp
                raise
            finally:
                self._restore()
                self._saved = (mports.time, mports.random, msock.socket, msock.select, mports.get_sleep_time())
            stats['cut_runs'] += 1
            stats['probe:cut_at_boundary' if c in boundaries else 'probe:cut_inside_message'] += 1
            if c == 0:
                stats['probe:cut_at_0'] += 1
            if c == L:
                stats['probe:cut_at_L'] += 1
        cov.add(f'scn1|{plan["consumer"]}|{plan["end"]}|{plan["via"]}')
        if L:
            stats['_nontrivial'] += 1
        return sim_total, None

    def _scn1_one(self, plan, stream, items, c, log, stats):
        clock, net = self._world(plan, log)
        log.ev('cut', c)
        host, portno = plan['host'], plan['port']
        # the raw peer owns a listening socket (via=connect) or dials in (via=conn)
        if plan['via'] == 'connect':
            lst = net.socket()
            lst.bind((host, portno))
            lst.listen(1)
            tagr, port = self._guard('connect', msock.connect, host, portno)
            if tagr != 'ok':
                raise Violation('connect-failed', 'connect() to a listening peer did not return')
            raw, _ = lst.accept()
        else:
            lst = net.socket()
            lst.bind((host, portno))
            lst.listen(1)
            raw = net.socket()
            raw.connect((host, portno))
            conn, (chost, cport) = lst.accept()
            port = msock.SocketPort(chost, cport, conn=conn)
        port._socket.net_epipe_after = plan['epipe_after']
        if plan.get('autoreset'):
            # the application wants the reset burst on close (public attribute of every output port); when the
            # port notices the hang-up, that burst goes to a peer that is no longer there
            port.autoreset = True
            stats['fault:autoreset_on_socket_port'] += 1
        pipe = raw.tx            # bytes flowing to the port under test
        data = bytes(stream[:c])
        pipe.inflight += data
        pipe.written += len(data)
        # delivery schedule: segments at cumulative times, then FIN or RST
        t = clock.now
        left = len(data)
        i = 0
        segs = plan['segs'] or [[0.0, 64]]
        while left > 0:
            dt, n = segs[i % len(segs)]
            i += 1
            t += dt
            k = min(max(1, n), left)
            net.at(t, lambda k=k: net.deliver(pipe, k))
            left -= k
        t += plan['fin_dt']
        rst = plan['end'] == 'rst'
        gone = bool(plan.get('autoreset'))
        if rst:
            def do_rst():
                net.reset(pipe, keep_delivered=bool(plan.get('rst_keep')))
                if gone:
                    raw.really_closed = True
            net.at(t, do_rst)
            stats['fault:rst'] += 1
        else:
            def fin():
                pipe.fin_sent = True
                net.deliver(pipe)
                if gone:
                    raw.really_closed = True      # closed for good, not only its sending half
            net.at(t, fin)
            stats['fault:fin'] += 1
        clock.last_event = max(clock.last_event, t)
        expected = [Snap(m) for end, m in items if end <= c]
        got, ended = self._consume(port, plan['consumer'], clock, net, plan, log, 'port', allow_oserror=rst)
        log.ev('ended', ended, len(got), bool(port.closed))
        if any(end <= c for end, _ in items) and any(e > c for e, _ in items):
            pass
        if rst:
            # narrower oracle: a prefix of what had completely arrived, nothing partial or altered
            if len(got) > len(expected) or not all(_eq(a, b) for a, b in zip(got, expected)):
                raise Violation('rst:not-a-prefix', f'cut {c} RST: yielded {got!r}, complete messages were {expected!r}')
            if ended == 'never-returned':
                raise Violation('rst:never-returned', f'cut {c}: consumer still blocked after the reset')
            stats['probe:rst_mid_message' if c not in {e for e, _ in items} | {0} else 'rst_at_boundary'] += 1
        else:
            if ended == 'never-returned':
                raise Violation(f'disconnect:never-ended@{plan["consumer"]}',
                                f'cut {c}: the peer sent FIN after {c} byte(s) but {plan["consumer"]} never ended '
                                f'(got {len(got)} message(s))')
            if len(got) != len(expected) or not all(_eq(a, b) for a, b in zip(got, expected)):
                raise Violation('disconnect:wrong-messages',
                                f'cut {c} of {len(stream)}: yielded {got!r}, the completely arrived messages are '
                                f'{expected!r} (stream {bytes(stream).hex(" ")})')
            if plan['consumer'] in ('iter', 'iter_break') and ended != 'stop':
                raise Violation('disconnect:iteration-raised', f'cut {c}: iteration ended by {ended}')
            if ended in ('rounds-exhausted', 'quiet'):
                raise Violation(f'disconnect:not-noticed@{plan["consumer"]}',
                                f'cut {c}: the stream reached EOF but the port never reported closed ({ended})')
            if not port.closed:
                raise Violation('disconnect:not-closed', f'cut {c}: port.closed is False after the disconnect')
            if got and c < len(stream):
                stats['probe:eof_seen_while_messages_queued'] += 1
            # the peer only closed its sending direction and keeps reading: a port that reports closed must have
            # released the connection, i.e. the peer reaches end-of-stream as well
            while net.next_event_time() is not None:
                clock.now = max(clock.now, net.next_event_time())
                net.pump()
            if not (raw.rx.eof or raw.rx.rst):
                raise Violation('disconnect:port-closed-but-connection-open',
                                f'cut {c}: the port consumed the end-of-stream and reports closed, but the peer (which '
                                f'only shut down its sending side) never sees the connection closed')
            stats['probe:peer_sees_close_after_eof'] += 1
        self._check_release(plan, net)
        sim = clock.now - clock.start
        clock.horizon = float('inf')
        try:
            port.close()
            port._rfile.close()
            port._wfile.close()
        except Exception:
            pass
        return sim

    # ------------------------------------------------------------------ scenario 2
    def _scn2(self, plan, log, stats, cov):
        clock, net = self._world(plan, log)
        net.auto_latency = plan['latency']
        host, portno = plan['host'], plan['port']
        tagr, server = self._guard('PortServer', msock.PortServer, host, portno)
        tagr, client = self._guard('connect', msock.connect, host, portno)
        if tagr != 'ok':
            raise Violation('connect-failed', 'connect() to a PortServer did not return')
        tagr, sconn = self._guard('accept', server.accept)
        if tagr != 'ok' or sconn is None:
            raise Violation('accept-failed', 'PortServer.accept() with a pending connection did not return a port')
        for p in (client, sconn):
            p._socket.net_epipe_after = plan['epipe_after']
            p._socket.close_latency = plan['latency']
        a2b = [make_msg(s, 0, i, pad) for i, (s, pad) in enumerate(plan['a2b'])]
        b2a = [make_msg(s, 1, i, pad) for i, (s, pad) in enumerate(plan['b2a'])]
        a2b_snap = [Snap(m) for m in a2b]
        b2a_snap = [Snap(m) for m in b2a]
        ia = ib = 0
        k = 0
        while ia < len(a2b) or ib < len(b2a):
            pickb = plan['order'][k % len(plan['order'])] if plan['order'] else 0
            k += 1
            if (pickb and ib < len(b2a)) or ia >= len(a2b):
                r = self._guard('send', sconn.send, b2a[ib])
                ib += 1
            else:
                r = self._guard('send', client.send, a2b[ia])
                ia += 1
            if r[0] != 'ok':
                raise Violation('send-never-returned', 'send() on an open socket port did not return')
        if plan.get('server_polls'):
            # the application also keeps polling the server object (for further clients) while it uses the port that
            # accept() handed out: that port is the caller's, its messages come out of it and nowhere else
            clock.now += plan['latency']
            net.pump()
            for _ in range(plan['server_polls']):
                r = self._guard('server.poll', server.poll)
                if r[0] != 'ok':
                    raise Violation('server:poll-never-returned', 'PortServer.poll() did not return')
                log.ev('server.poll', repr(r[1]))
            stats['fault:server_polled_while_accepted_port_in_use'] += 1
        closer, other = (client, sconn) if plan['closer'] == 'client' else (sconn, client)
        to_other = a2b_snap if closer is client else b2a_snap
        if plan.get('autoreset'):
            other.autoreset = True
            stats['fault:autoreset_on_socket_port'] += 1
        if plan['reader_before_close'] and plan['consumer'] in ('poll', 'iter_pending'):
            # the other side reads a little before the close happens
            clock.now += plan['latency']
            pre, _ = self._consume(other, plan['consumer'], clock, net, dict(plan, poll_advance=0.0), log, 'pre',
                                   max_rounds=2)
        else:
            pre = []
        r = self._guard('close', closer.close)
        if r[0] != 'ok':
            raise Violation('close-never-returned', 'SocketPort.close() did not return')
        log.ev('closed', plan['closer'])
        stats['fault:orderly_close'] += 1
        send_failed = False
        if plan.get('late_sends') and plan['consumer'] in ('iter', 'iter_break'):
            # the side that was left behind does not know yet and keeps sending: the usual way a two-way
            # application meets the hang-up. Each send may work or fail with OSError / ValueError.
            clock.now += plan['latency'] + 0.001
            net.pump()
            for j in range(plan['late_sends']):
                r = self._guard('late-send', other.send, make_msg('note_on', 5, j, 1), expect=(OSError, ValueError))
                log.ev('late-send', r[0], type(r[1]).__name__ if r[0] == 'raised' else None)
                if r[0] == 'never-returned':
                    raise Violation('send-never-returned', 'send() to a peer that has hung up did not return')
                if r[0] == 'raised':
                    send_failed = True
                    stats['probe:send_to_dead_peer_failed'] += 1
            stats['fault:send_after_peer_hung_up'] += 1
        got, ended = self._consume(other, plan['consumer'], clock, net, plan, log, 'other')
        got = pre + got
        log.ev('ended', ended, len(got), bool(other.closed))
        if send_failed:
            # the port may have closed itself on the failed send, before reading what was still in the socket:
            # what it does hand out must still be an in-order prefix of what arrived
            if len(got) > len(to_other) or not all(_eq(a, b) for a, b in zip(got, to_other)):
                raise Violation('peer-close:wrong-messages', f'the peer sent {to_other!r} before closing; received '
                                                             f'{got!r} (after a failed send to the dead peer)')
        elif len(got) != len(to_other) or not all(_eq(a, b) for a, b in zip(got, to_other)):
            raise Violation('peer-close:wrong-messages', f'the peer sent {to_other!r} before closing; received {got!r}')
        if ended == 'never-returned':
            raise Violation(f'peer-close:not-seen@{plan["consumer"]}',
                            f'{plan["closer"]} closed its socket port, but the peer\'s {plan["consumer"]} never ended: '
                            f'the disconnect was not seen')
        if ended in ('rounds-exhausted', 'quiet'):
            raise Violation(f'peer-close:not-seen@{plan["consumer"]}',
                            f'{plan["closer"]} closed its socket port, but the peer never reported closed ({ended})')
        if plan['consumer'] in ('iter', 'iter_break') and ended != 'stop':
            raise Violation('peer-close:iteration-raised', f'iteration on the peer ended by {ended}')
        if not other.closed:
            raise Violation('peer-close:not-closed', 'peer port.closed is False after the disconnect')
        stats['probe:close_seen_by_peer'] += 1
        cov.add(f'scn2|{plan["consumer"]}|{plan["closer"]}')
        if a2b or b2a:
            stats['_nontrivial'] += 1
        self._check_release(plan, net)
        sim = clock.now - clock.start
        clock.horizon = float('inf')
        for p in (client, sconn, server):
            try:
                p.close()
            except Exception:
                pass
        return sim

    # ------------------------------------------------------------------ scenario 3
    def _scn3(self, plan, log, stats, cov):
        clock, net = self._world(plan, log)
        host, portno = plan['host'], plan['port']
        tagr, server = self._guard('PortServer', msock.PortServer, host, portno)
        streams = []
        arrival = {}          # (client, seq) -> time its last byte is delivered
        expected = {}         # client -> list of messages that arrive completely
        for ci, cl in enumerate(plan['clients']):
            if cl.get('bulk'):
                msgs = [mido.Message('note_on', channel=ci, note=k % 128, velocity=(k // 128) % 128)
                        for k in range(cl['bulk'])]
            else:
                msgs = [make_msg(s, ci, i, pad) for i, (s, pad) in enumerate(cl['msgs'])]
            data = []
            ends = []
            for m in msgs:
                data.extend(m.bytes())
                ends.append(len(data))
            cut = len(data) if cl['cut'] is None else min(cl['cut'], len(data))
            if not cl['disconnect']:
                cut = len(data)
            expected[ci] = [Snap(m) for m, e in zip(msgs, ends) if e <= cut]
            t0 = clock.start + cl['connect_at']
            state = {}

            def dial(ci=ci, state=state, data=data, cut=cut):
                raw = net.socket()
                try:
                    raw.connect((host, portno))
                except ConnectionRefusedError:
                    raise Violation('server:stopped-listening', f'client {ci} could not connect: the server no longer '
                                                                f'listens although nobody closed it')
                state['raw'] = raw
                raw.tx.inflight += bytes(data[:cut])
                raw.tx.written += cut
            net.at(t0, dial)
            t = t0
            left = cut
            i = 0
            pos = 0
            segs = cl['segs'] or [[0.0, 64]]
            while left > 0:
                dt, n = segs[i % len(segs)]
                i += 1
                t += dt
                k = min(max(1, n), left)
                net.at(t, lambda k=k, state=state: net.deliver(state['raw'].tx, k))
                pos += k
                for si, e in enumerate(ends):
                    if e <= pos and (ci, si) not in arrival:
                        arrival[(ci, si)] = t
                left -= k
            if cl['disconnect']:
                t += cl['fin_dt']

                def fin(state=state, reset=cl.get('reset', False)):
                    p = state['raw'].tx
                    if reset:
                        net.reset(p, keep_delivered=bool(plan.get('rst_keep')))     # in flight: gone; delivered: gone or readable first
                    else:
                        p.fin_sent = True
                        net.deliver(p)
                    state['raw'].really_closed = True
                net.at(t, fin)
                stats['fault:client_reset' if cl.get('reset') else 'fault:client_disconnect'] += 1
                if cut < len(data):
                    stats['fault:client_disconnect_mid_message'] += 1
            clock.last_event = max(clock.last_event, t)
            streams.append(state)
        got = collections.defaultdict(list)
        has_reset = any(cl.get('reset') and cl['disconnect'] for cl in plan['clients'])

        def take(where, m):
            if not isinstance(m, mido.Message):
                raise Violation(f'server:bad-result@{where}', f'{where} returned {m!r}')
            key = ident(m)
            ci = key[0] if key else -1
            exp = expected.get(ci)
            n = len(got[ci])
            if exp is None or n >= len(exp) or not (exp[n] == Snap(m)):
                raise Violation(f'server:wrong-message@{where}',
                                f'{where} returned {m!r}; next expected from client {ci} is '
                                f'{exp[n] if exp and n < len(exp) else None!r}')
            at = arrival.get((ci, n))
            if at is not None and at > clock.now + 16 * math.ulp(max(1.0, abs(clock.now))):
                raise Violation(f'server:before-arrival@{where}', f'{m!r} handed out at {clock.now} before its last byte '
                                                                  f'arrives at {at}')
            got[ci].append(m)
            log.ev(where, repr(m))
            if plan.get('mutate'):
                consumer_edit(m)

        def pending_arrived():
            """Messages whose last byte has been delivered by now and that were not handed out yet."""
            out = []
            for (ci, si), at in arrival.items():
                if at <= clock.now and si >= len(got[ci]) and si < len(expected[ci]):
                    out.append((at, ci, si))
            return sorted(out)

        def arm():
            nxt = net.next_event_time()
            clock.last_event = max(clock.last_event, nxt if nxt is not None else clock.now)
            clock.arm()

        for op in plan['ops'] + [['advance', 1.0], ['drain'], ['settle'], ['drain'], ['drain'], ['drain'], ['drain']] + \
                ([['drain']] * 4 if any(cl.get('bulk') for cl in plan['clients']) else []) + \
                ([['drain']] * 12 if has_reset else []):
            k = op[0]
            if has_reset and k in ('receive', 'iter'):
                k = 'poll'      # with a client that dies by reset every call may fail: only non-blocking calls are used
            stats['steps'] += 1
            if k == 'advance':
                clock.now += op[1]
                net.pump()
                continue
            if k == 'settle':
                # end of the history: let every scheduled network event happen before the final drains
                while net.next_event_time() is not None:
                    clock.now = max(clock.now, net.next_event_time())
                    net.pump()
                clock.now += 1.0
                continue
            c0, s0 = clock.now, clock.sleep_calls
            arm()
            if k in ('poll', 'iter_pending', 'drain'):
                exp_err = (OSError,) if has_reset else ()
                if k == 'poll':
                    tagr, res = self._guard('server.poll', server.poll, expect=exp_err)
                    batch = [res] if tagr == 'ok' and res is not None else []
                else:
                    def pull():
                        out = []
                        try:
                            for m in server.iter_pending():
                                out.append(m)
                        except OSError:
                            if not has_reset:
                                raise
                            stats['server_call_failed_after_client_reset'] += 1
                        return out
                    tagr, res = self._guard('server.iter_pending', pull)
                    batch = res if tagr == 'ok' else []
                if tagr == 'raised':
                    stats['server_call_failed_after_client_reset'] += 1      # may fail; must not lose other messages
                    continue
                if tagr == 'never-returned':
                    raise Violation(f'server:{k}-never-returned', f'PortServer.{k}() did not return (non-blocking call)')
                if clock.now != c0 or clock.sleep_calls != s0:
                    raise Violation(f'server:nonblocking-waited@{k}', f'PortServer.{k} advanced the clock')
                for m in batch:
                    take(k, m)
                if len(plan['clients']) >= 2:
                    stats['probe:server_poll_with_two_clients'] += 1
            else:
                n = 1 if k == 'receive' else op[1]
                it = iter(server) if k == 'iter' else None
                for _ in range(n):
                    pend = pending_arrived()
                    future = sorted(at for (ci, si), at in arrival.items()
                                    if si >= len(got[ci]) and si < len(expected[ci]))
                    if not future:
                        break       # nothing will ever be deliverable: do not start a wait that cannot end
                    dl = max(future[0], clock.now) + 3 * clock.sleep_time + 2 * clock.sleep_time * len(plan['clients'])
                    arm()
                    if k == 'receive':
                        tagr, res = self._guard('server.receive', server.receive)
                    else:
                        tagr, res = self._guard('server.iter', lambda: next(it, StopIteration))
                    if tagr == 'never-returned':
                        raise Violation(f'server:blocking-{k}-never-returned',
                                        f'PortServer {k} had a message deliverable at +{future[0] - clock.start:.6f}s '
                                        f'but was still blocked at +{clock.now - clock.start:.6f}s')
                    if res is StopIteration:
                        raise Violation('server:iteration-ended', 'iteration over an open PortServer ended')
                    take(k, res)
                    if clock.now > dl + 16 * math.ulp(max(1.0, abs(clock.now))):
                        raise Violation(f'server:blocking-{k}-late',
                                        f'PortServer {k} returned at +{clock.now - clock.start:.6f}s; a message was '
                                        f'deliverable by +{dl - clock.start:.6f}s')
                    stats['probe:server_blocking_receive'] += 1
                if it is not None and hasattr(it, 'close'):
                    it.close()
        for ci, exp in expected.items():
            if plan['clients'][ci].get('reset') and plan['clients'][ci]['disconnect']:
                continue        # a reset discards what was not read yet: only a prefix is required (checked in take)
            if len(got[ci]) != len(exp):
                raise Violation('server:lost', f'client {ci}: {len(exp)} message(s) arrived completely, '
                                               f'{len(got[ci])} were handed out (after the final drains)')
        if any(cl['connect_at'] == 0.0 and cl['msgs'] for cl in plan['clients']):
            stats['probe:client_data_before_accept'] += 1
        cov.add(f'scn3|c{len(plan["clients"])}')
        if any(cl['msgs'] or cl.get('bulk') for cl in plan['clients']):
            stats['_nontrivial'] += 1
        if any(cl.get('bulk') for cl in plan['clients']):
            stats['probe:server_burst_over_1024_messages'] += int(sum(cl.get('bulk', 0) for cl in plan['clients']) > 1024)
        sim = clock.now - clock.start
        clock.horizon = float('inf')
        # closing the server port must be seen as a disconnect by every client that is still connected
        r = self._guard('server.close', server.close)
        if r[0] != 'ok':
            raise Violation('server:close-never-returned', 'PortServer.close() did not return')
        while net.next_event_time() is not None:
            clock.now = max(clock.now, net.next_event_time())
            net.pump()
        for ci, (cl, state) in enumerate(zip(plan['clients'], streams)):
            raw = state.get('raw')
            if raw is None or cl['disconnect'] or raw.rx is None:
                continue
            if not (raw.rx.eof or raw.rx.rst):
                raise Violation('server:close-not-seen-by-client',
                                f'the server port was closed but client {ci} (of {len(plan["clients"])}) never reached '
                                f'end-of-stream')
            stats['probe:server_close_seen_by_client'] += 1
        self._check_release(plan, net)
        return sim

    # ------------------------------------------------------------------ shrinking
    def shrink(self, prop, plan):
        if plan['scn'] == 4:
            from .ports_conc import ENGINE as PC
            yield from PC.shrink(prop, plan)
            return
        if plan['scn'] == 1:
            yield from shrink_list_at(plan, ('msgs',), min_len=1)
            yield from shrink_list_at(plan, ('rt',))
            if len(plan['segs']) > 1:
                yield from shrink_list_at(plan, ('segs',), min_len=1)
            for i, d in enumerate(plan['msgs']):
                if d['type'] == 'sysex' and d['data']:
                    yield from shrink_list_at(plan, ('msgs', i, 'data'))
            if plan['cuts'] and plan['cuts'][0] > 0:
                yield replace_at(plan, ('cuts',), [plan['cuts'][0] - 1])
            if plan['via'] != 'conn':
                yield replace_at(plan, ('via',), 'conn')
            if plan['fin_dt']:
                yield replace_at(plan, ('fin_dt',), 0.0)
        elif plan['scn'] == 2:
            yield from shrink_list_at(plan, ('a2b',))
            yield from shrink_list_at(plan, ('b2a',))
            if plan['latency']:
                yield replace_at(plan, ('latency',), 0.0)
            if plan['reader_before_close']:
                yield replace_at(plan, ('reader_before_close',), False)
        else:
            yield from shrink_list_at(plan, ('ops',))
            if len(plan['clients']) > 1:
                yield from shrink_list_at(plan, ('clients',), min_len=1)
            for i, c in enumerate(plan['clients']):
                yield from shrink_list_at(plan, ('clients', i, 'msgs'))
                if c['disconnect']:
                    yield replace_at(plan, ('clients', i, 'disconnect'), False)
        if plan.get('mutate'):
            yield replace_at(plan, ('mutate',), False)
        if plan['start_time']:
            yield replace_at(plan, ('start_time',), 0.0)
        if plan['host'] != 'h' or plan['port'] != 8080:
            c = dict(plan)
            c['host'], c['port'] = 'h', 8080
            yield c

    def rule(self, prop):
        return ('Each run is one workload. Scenario 1: a raw peer transmits the encodings of 1-8 messages (all types, '
                'real-time bytes inside sysex) and the connection is cut at EVERY byte offset 0..L in turn (FIN, or RST '
                'in a separate configuration), the bytes before the cut being segmented and delayed on the virtual '
                'clock; the port under test is consumed by for-loop / receive() / poll loop / iter_pending loop. '
                'Scenario 2: connect() <-> PortServer.accept(), messages both ways, one side closes, the peer must see '
                'the disconnect. Scenario 3: PortServer with 1-3 raw clients connecting, sending (segmented) and '
                'disconnecting (also mid-message) at planned times while the server polls / iterates / blocks. '
                'Non-trivial = at least one message on some stream.')

    def coverage_report(self, prop, cov):
        return {'scenario_cells_hit': len(cov), 'cells': sorted(cov)}

    def components(self, prop):
        return {'real': ['mido.sockets: SocketPort (_receive/_send/_close), PortServer (accept/_receive/_update_ports/'
                         '_close), connect, parse_address, format_address', 'mido.ports base classes, MultiPort, '
                         'multi_receive, sleep', 'mido.parser.Parser / tokenizer'],
                'stub': ['socket + makefile objects -> simkit.simnet (ordered byte pipes, FIN/RST/EPIPE/refused, '
                         '_io_refs close rule)', 'select.select -> readiness of simulated sockets',
                         'time.sleep -> virtual clock', 'random.shuffle -> planned rotation'],
                'not_run': ['the operating system TCP stack']}

    def assumptions(self, prop):
        return ['The simulated connection preserves order and never loses or duplicates bytes (what TCP gives an '
                'application); loss/duplication are deliberately not injected.',
                'socket.close() releases the connection only when the last makefile() object is closed '
                '(CPython _io_refs rule; confirmed on a real socketpair).',
                'After RST only a prefix of the completely arrived messages is required (the statement does not '
                'settle whether a reset must be swallowed).']

    def probe_names(self, prop):
        return ['cut_inside_message', 'cut_at_boundary', 'cut_at_0', 'cut_at_L', 'eof_seen_while_messages_queued',
                'client_data_before_accept', 'close_seen_by_peer', 'rst_mid_message',
                'server_poll_with_two_clients', 'server_blocking_receive', 'server_burst_over_1024_messages',
                'server_close_seen_by_client']


ENGINE = NetSim()
