"""Engine `wire` - a simulated MIDI wire feeding the real mido parser (DESIGN 3: C04, C05, C06).

World: 1-3 sources transmitting real `Message.bytes()`, a real-time source, a merger, a fault
process (drop, dup, bit flip, boundary replace, garbage burst, source crash, hot-plug,
byte-wise merger failure, real-time insertion) and a transport that hands the receiver the
accumulated bytes in chunks of its choosing. Receiver: real `mido.Parser` directly, or behind
`parse_all`, a polling device-port double, or `ParserQueue`.

Everything is decided by the plan, which is a pure function of (property, VERIF_SEED, run index).
"""
import array
import collections

from simkit import bootstrap
from simkit.choice import rng_for, Log, pick, weighted
from simkit import model, simtime
from simkit.shrink import shrink_list_at, replace_at
from . import BaseEngine, Violation

mido = bootstrap()
from mido.parser import Parser  # noqa: E402
import mido.ports as mports  # noqa: E402
from mido.backends._parser_queue import ParserQueue  # noqa: E402

FAULT_KINDS = ('drop', 'dup', 'flip', 'replace', 'burst', 'crash', 'hotplug', 'bytemix', 'rt_insert',
               'rt_undef_insert')
RATES = (1 / 64, 1 / 16, 1 / 4, 1.0)
TYPE_MIXES = (
    ('all', model.ALL_TYPES),
    ('channel', model.CHANNEL_TYPES),
    ('sysex_heavy', ('sysex', 'sysex', 'sysex', 'note_on', 'clock', 'songpos')),
    ('common', model.COMMON_TYPES + ('sysex',)),
    ('rt_heavy', model.RT_TYPES + ('note_on', 'sysex')),
    ('non_rt', model.NON_RT_TYPES),
)
HOWS = ('list', 'bytes', 'bytearray', 'gen', 'tuple', 'byte', 'gen_fail', 'array', 'memoryview', 'intsub')


class Byte(int):
    """An integer 0..255 that is not exactly `int` (what an IntEnum member or a numpy scalar is to the parser)."""
    __slots__ = ()
PREFIX_CLASSES = ('empty', 'noise', 'cut_msg', 'midstream', 'stray_status', 'open_sysex', 'world')
ABS_STATES = ('idle', 'ch3a2', 'ch3a1', 'ch2a1', 'f13a1', 'f2a2', 'f2a1', 'sysex')
BYTE_CLASSES = ('data', 'chan', 'F0', 'F1F3', 'F2', 'F6', 'F7', 'F4F5', 'rt', 'rtundef')


# --------------------------------------------------------------------------- world

def gen_world(rng, max_len=400, force_faults=None):
    """Simulate sources + merger + fault process. Returns (wire bytes, cfg, faults fired)."""
    fired = collections.Counter()
    r = rng.random()
    if r < 0.05:
        n = rng.randint(1, 200)
        fired['noise_boundary'] += 1
        return [pick(rng, model.BOUNDARY_BYTES) for _ in range(n)], {'kind': 'noise_boundary'}, fired
    if r < 0.08:
        n = rng.randint(1, 200)
        fired['noise_uniform'] += 1
        return [rng.randrange(256) for _ in range(n)], {'kind': 'noise_uniform'}, fired
    mixname, types = pick(rng, TYPE_MIXES)
    rates = {}
    if force_faults is None:
        faulty = rng.random() >= 0.25
    else:
        faulty = force_faults
    if faulty:
        for k in FAULT_KINDS:
            if rng.random() < 0.35:
                rates[k] = pick(rng, RATES)
        if not rates:
            rates[pick(rng, FAULT_KINDS)] = pick(rng, RATES)
    n_src = rng.randint(1, 3)
    queues = []
    repetitive = rng.random() < 0.3      # a source that keeps sending the same few messages
    for _ in range(n_src):
        q = []
        pool = [model.gen_msg(rng, types, sysex_max=pick(rng, (4, 12))) for _ in range(rng.randint(1, 2))]
        for _ in range(rng.randint(1, 6)):
            d = pick(rng, pool) if repetitive else model.gen_msg(rng, types, sysex_max=pick(rng, (4, 12, 40)))
            q.append(list(mido.Message(**d).bytes()))
        queues.append(q)
    cfg = {'kind': 'sources', 'types': mixname, 'sources': n_src, 'repetitive': repetitive,
           'rates': {k: round(v, 4) for k, v in rates.items()}}

    # merger: whole messages, unless the merger fails (byte-wise mix of two sources)
    wire = []
    active = [q for q in queues if q]
    first = True
    while active and len(wire) < max_len:
        q = pick(rng, active)
        msg = q.pop(0)
        if first and 'hotplug' in rates and len(msg) > 1 and rng.random() < max(rates['hotplug'], 0.5):
            j = rng.randint(1, len(msg) - 1)
            msg = msg[j:]
            fired['hotplug'] += 1
        first = False
        if 'crash' in rates and len(msg) > 1 and rng.random() < rates['crash']:
            msg = msg[:rng.randint(1, len(msg) - 1)]
            fired['crash'] += 1
            q.clear()   # the source is dead; another one carries on
        others = [o for o in active if o is not q and o]
        if 'bytemix' in rates and others and rng.random() < rates['bytemix']:
            other = pick(rng, others).pop(0)
            fired['bytemix'] += 1
            a, b = list(msg), list(other)
            while a or b:
                src = a if (a and (not b or rng.random() < 0.5)) else b
                wire.append(src.pop(0))
        else:
            wire.extend(msg)
        active = [x for x in queues if x]

    # per-byte fault process on the serialized wire
    out = []
    for b in wire:
        if 'rt_insert' in rates and rng.random() < rates['rt_insert'] * 0.5:
            out.append(pick(rng, model.RT_DEFINED))
            fired['rt_insert'] += 1
        if 'rt_undef_insert' in rates and rng.random() < rates['rt_undef_insert'] * 0.25:
            out.append(pick(rng, model.RT_UNDEFINED))
            fired['rt_undef_insert'] += 1
        if 'burst' in rates and rng.random() < rates['burst'] * 0.2:
            for _ in range(rng.randint(1, 6)):
                out.append(pick(rng, model.BOUNDARY_BYTES))
            fired['burst'] += 1
        if 'drop' in rates and rng.random() < rates['drop'] * 0.5:
            fired['drop'] += 1
            continue
        if 'flip' in rates and rng.random() < rates['flip'] * 0.5:
            b ^= 1 << rng.randrange(8)
            fired['flip'] += 1
        if 'replace' in rates and rng.random() < rates['replace'] * 0.5:
            b = pick(rng, model.BOUNDARY_BYTES)
            fired['replace'] += 1
        out.append(b)
        if 'dup' in rates and rng.random() < rates['dup'] * 0.5:
            out.append(b)
            fired['dup'] += 1
    return out[:max_len], cfg, fired


def gen_chunks(rng, n):
    mode = pick(rng, ('one', 'two', 'three', 'geom', 'geom', 'whole', 'mixed', 'mixed'))
    sizes = []
    left = n
    while left > 0:
        if mode == 'one':
            s = 1
        elif mode == 'two':
            s = 2
        elif mode == 'three':
            s = 3
        elif mode == 'whole':
            s = left
        elif mode == 'geom':
            s = 1
            while rng.random() < 0.6 and s < left:
                s += 1
        else:
            s = pick(rng, (1, 1, 2, 3, rng.randint(1, 8), rng.randint(1, max(1, left))))
        s = min(s, left)
        sizes.append(s)
        left -= s
    return sizes


def gen_ops(rng, n_bytes, consumer=True, allow_ctor=True):
    ops = []
    p_consume = pick(rng, (0.0, 0.2, 0.5, 0.9)) if consumer else 0.0
    how_mode = pick(rng, HOWS + ('mixed', 'mixed', 'mixed'))
    firstfeed = True
    for s in gen_chunks(rng, n_bytes):
        how = pick(rng, HOWS) if how_mode == 'mixed' else how_mode
        if firstfeed and allow_ctor and rng.random() < 0.1:
            how = 'ctor'
        firstfeed = False
        ops.append(['feed', how, s])
        while rng.random() < p_consume:
            k = weighted(rng, (('get', 4), ('pending', 2), ('len', 1), ('iter_open', 1.5), ('iter_next', 3),
                               ('drain', 1)))
            if k == 'iter_open':
                ops.append([k, rng.randrange(2)])
            elif k == 'iter_next':
                ops.append([k, rng.randrange(2), rng.randint(1, 3)])
            else:
                ops.append([k])
    return ops


# --------------------------------------------------------------------------- receivers

class _DevIn(mports.BaseInput):
    """Polling device-port double (old-style: _receive feeds self._parser)."""
    def _open(self, **kw):
        self.staged = []
        self.newstyle = False

    def _receive(self, block=True):
        if self.staged:
            data, self.staged = self.staged, []
            self._parser.feed(data)
        if self.newstyle:
            return self._parser.get_message()


class SourceFailed(Exception):
    """Raised by the harness's own lazy byte source part-way through a chunk (a device read error)."""


def _failing_source(data, state):
    for i, b in enumerate(data):
        if i == state['fail_at']:
            state['consumed'] = i
            raise SourceFailed()
        yield b
    state['consumed'] = len(data)


def _as(how, data):
    if how == 'bytes':
        return bytes(data)
    if how == 'bytearray':
        return bytearray(data)
    if how == 'gen':
        return (b for b in data)
    if how == 'tuple':
        return tuple(data)
    if how == 'array':
        # a buffer-exporting sequence of integers; items one, two or four bytes wide
        return array.array(('B', 'H', 'i')[len(data) % 3], data)
    if how == 'memoryview':
        return memoryview(bytes(data))
    if how == 'intsub':
        return [Byte(b) for b in data]
    return list(data)


class Receiver:
    """Uniform view of the four receiver kinds. Every call into mido goes through `call`."""
    def __init__(self, mode):
        self.mode = mode
        self.obj = None
        if mode in ('port_old', 'port_new'):
            self.obj = _DevIn('dev')
            self.obj.newstyle = (mode == 'port_new')
        elif mode == 'pq':
            self.obj = ParserQueue()
        self.iters = {}

    def feed(self, how, data):
        m = self.mode
        if m == 'parser':
            if self.obj is None:
                if how == 'ctor':
                    self.obj = Parser(_as('list', data))
                    return
                self.obj = Parser()
            if how == 'byte':
                for b in data:
                    self.obj.feed_byte(b)
            elif how == 'gen_fail' and len(data) > 1:
                # the lazy source fails after some bytes of the chunk; the bytes it did not deliver stay on the
                # wire and come with a later delivery (the caller is told how many were consumed)
                st = {'fail_at': len(data) // 2 + (len(data) % 3 == 0), 'consumed': 0}
                try:
                    self.obj.feed(_failing_source(data, st))
                except SourceFailed:
                    pass
                self.source_failures = getattr(self, 'source_failures', 0) + 1
                return st['consumed']
            else:
                self.obj.feed(_as(how, data))
        elif m == 'pq':
            self.obj.put_bytes(_as(how if how not in ('byte', 'ctor') else 'list', data))
        else:
            self.obj.staged.extend(data)

    def _parser(self):
        if self.obj is None:
            self.obj = Parser()
        return self.obj

    def get(self):
        m = self.mode
        if m == 'parser':
            return self._parser().get_message()
        if m == 'pq':
            return self.obj.poll()
        return self.obj.poll()

    def pending(self, use_len):
        if self.mode != 'parser':
            return None
        return len(self._parser()) if use_len else self._parser().pending()

    def new_iter(self):
        m = self.mode
        if m == 'parser':
            return iter(self._parser())
        if m == 'pq':
            return self.obj.iterpoll()
        return self.obj.iter_pending()

    def close(self):
        if self.mode.startswith('port') and self.obj is not None:
            self.obj.close()


def _eq(a, b):
    """Message equality that never raises (mido's __eq__ raises TypeError for non-messages)."""
    try:
        return a == b
    except Exception:
        return False


def snap(m):
    """Plain-data snapshot of a message (type, attributes, time): immune to later mutation of the object
    or of anything it may secretly share with other objects."""
    try:
        d = model.msg_to_dict(m)
    except Exception:
        return ('?', repr(m))
    return (d['type'], tuple(sorted((k, tuple(v) if isinstance(v, list) else v) for k, v in d.items()
                                    if k != 'type')), getattr(m, 'time', None))


def mutate_received(m):
    """What a consumer may do with a message it received: edit it in place (valid values only)."""
    try:
        t = m.type
        if t in ('note_on', 'note_off', 'polytouch'):
            m.note = (m.note + 12) % 128
            m.channel = (m.channel + 5) % 16
        elif t == 'control_change':
            m.control = (m.control + 1) % 128
            m.value = 127 - m.value
        elif t in ('program_change',):
            m.program = (m.program + 1) % 128
        elif t == 'aftertouch':
            m.value = (m.value + 1) % 128
        elif t == 'pitchwheel':
            m.pitch = 0 if m.pitch else 100
        elif t == 'sysex':
            m.data = [1, 2, 3]
        elif t == 'songpos':
            m.pos = (m.pos + 1) % 16384
        elif t == 'song_select':
            m.song = (m.song + 1) % 128
        elif t == 'quarter_frame':
            m.frame_value = (m.frame_value + 1) % 16
        m.time = 4242
    except Exception:
        pass


def background(kind, data, stats):
    """Other, unrelated use of the library in the same process (must not influence the parser under test)."""
    stats['fault:background_' + kind] += 1
    try:
        if kind == 'from_bytes_time':
            for enc in _split_encodings(data)[:6]:
                try:
                    mido.Message.from_bytes(enc, time=77)
                except ValueError:
                    pass
        elif kind == 'bad_parse_all':
            try:
                mido.parse_all(list(data[:8]) + [0xF0, 1, 2, 300])
            except (ValueError, TypeError):
                pass
            try:
                Parser().feed([0x90, 0x40, -1])
            except (ValueError, TypeError):
                pass
        elif kind == 'parse_other':
            mido.parse_all([0x90, 0x10] + list(data[:5]) + [0xF0, 0x7D])
            mido.parse([0xB0, 1])
        elif kind == 'midifile':
            import io
            msgs = []
            for enc in _split_encodings(data)[:6]:
                try:
                    m = mido.Message.from_bytes(enc, time=120)
                except ValueError:
                    continue
                if m.type not in model.RT_TYPES:
                    msgs.append(m)
            mf = mido.MidiFile(tracks=[mido.MidiTrack(msgs)])
            buf = io.BytesIO()
            mf.save(file=buf)
            mido.MidiFile(file=io.BytesIO(buf.getvalue()))
    except Exception as e:     # background activity on valid data must not fail either, but it is not what is judged
        stats['background_raised:' + type(e).__name__] += 1


def _split_encodings(data):
    """Cut a byte list at status bytes (a rough split, good enough to find some whole encodings)."""
    out = []
    cur = []
    for b in data:
        if b >= 0x80 and b != 0xF7 and cur:
            out.append(cur)
            cur = []
        cur.append(b)
    if cur:
        out.append(cur)
    return out


BG_KINDS = ('from_bytes_time', 'bad_parse_all', 'parse_other', 'midifile')


# --------------------------------------------------------------------------- engine

class WireEngine(BaseEngine):
    name = 'wire'

    def tiers(self, prop):
        return {'C04': {'quick': 300_000, 'thorough': 6_000_000},
                'C05': {'quick': 200_000, 'thorough': 3_000_000},
                'C06': {'quick': 400_000, 'thorough': 15_000_000}}[prop]

    # ---------------- generation
    def gen(self, prop, seed, idx, tier):
        rng = rng_for(prop, seed, idx, 'plan')
        if prop == 'C06':
            return self._gen_c06(rng, idx)
        wire, cfg, fired = gen_world(rng)
        if prop == 'C05' and idx % 10 == 9:
            # mode B (threads): the ParserQueue anchor, executed by the ports_conc machinery
            from .ports_conc import ENGINE as PC
            plan = PC.gen_raw(prop, seed, idx, wire[:60], rng)
            plan['mode'] = 'pq_threads'
            plan['cfg'] = cfg
            plan['faults_fired'] = dict(fired)
            return plan
        if idx % 40 == 7:
            # two threads, each feeding its own parser (or calling parse_all): independent users of the library
            from .ports_conc import ENGINE as PC
            w2, _, _ = gen_world(rng, max_len=40)
            plan = PC.gen_twin(prop, seed, idx, [wire[:40], w2], rng)
            plan['mode'] = 'twin_threads'
            plan['cfg'] = cfg
            return plan
        if idx % 150000 == 77:
            # a single sysex of more than a mebibyte, with a real-time byte inside and messages around it
            n = (1 << 20) + rng.randint(1, 50)
            wire = [0x90, 1, 2, 0xF0] + [i & 0x7F for i in range(n // 2)] + [0xF8] + \
                   [i & 0x7F for i in range(n - n // 2)] + [0xF7, 0x80, 3, 4]
            cfg = {'kind': 'bulk', 'bytes': len(wire), 'giant_sysex': True}
            fired = collections.Counter({'giant_sysex': 1})
        elif idx % 1500 == 11:
            # bulk: thousands of short messages in one stream (queue and buffer limits)
            n = rng.randint(4200, 9000) if rng.random() < 0.85 else rng.randint(66000, 70000)
            alpha = (0xF8, 0xFA, 0xFE, 0xF6, 0xF8, 0xF8)
            wire = []
            p_single = 0.8 if n < 60000 else 0.999
            while len(wire) < n:
                if rng.random() < p_single:
                    wire.append(pick(rng, alpha))
                else:
                    wire.extend(mido.Message(**model.gen_msg(rng, model.CHANNEL_TYPES)).bytes())
            cfg = {'kind': 'bulk', 'bytes': len(wire)}
            fired = collections.Counter({'bulk_stream': 1})
        if prop == 'C04':
            mode = weighted(rng, (('parser', 6), ('parse_all', 1), ('port_old', 1), ('port_new', 1), ('pq', 1)))
        else:
            mode = weighted(rng, (('parser', 7), ('port_old', 1), ('port_new', 1), ('pq', 1)))
        if cfg.get('kind') == 'bulk':
            mode = 'parser'
            ops = [['feed', pick(rng, ('list', 'bytes')), pick(rng, (len(wire), len(wire) // 2 + 1))]]
        else:
            ops = gen_ops(rng, len(wire), consumer=(mode != 'parse_all'), allow_ctor=(mode == 'parser'))
        if mode == 'parse_all':
            ops = [['feed', 'list', len(wire)]]
        plan = {'prop': prop, 'mode': mode, 'wire': wire, 'ops': ops, 'cfg': cfg,
                'faults_fired': dict(fired), 'mutate': rng.random() < 0.3}
        if mode != 'parse_all' and cfg.get('kind') != 'bulk':
            extra = []
            if rng.random() < 0.25:
                tw, _, _ = gen_world(rng, max_len=60)
                plan['twin_wire'] = tw
                for s in gen_chunks(rng, len(tw)):
                    extra.append(['twin_feed', s])
                    if rng.random() < 0.3:
                        extra.append(['twin_get'])
            if rng.random() < 0.25:
                for _ in range(rng.randint(1, 3)):
                    extra.append(['bg', pick(rng, BG_KINDS)])
            if rng.random() < 0.3:
                for _ in range(rng.randint(1, 4)):
                    extra.append(['delay', pick(rng, (0.001, 0.4, 2.5, 60.0, 86400.0))])
            if rng.random() < 0.25:
                # the transport hands over nothing (a zero-length read): legal, and it carries no bytes
                for _ in range(rng.randint(1, 4)):
                    extra.append(['feed_empty', pick(rng, ('bytes', 'bytes', 'bytearray', 'list', 'tuple', 'gen'))])
            if extra:
                # interleave, keeping the relative order of both lists
                merged = []
                a, b = list(ops), extra
                while a or b:
                    if a and (not b or rng.random() < len(a) / (len(a) + len(b))):
                        merged.append(a.pop(0))
                    else:
                        merged.append(b.pop(0))
                plan['ops'] = merged
        return plan

    def _gen_prefix(self, rng):
        cls = pick(rng, PREFIX_CLASSES)
        if cls == 'empty':
            p = []
        elif cls == 'noise':
            alpha = model.BOUNDARY_BYTES if rng.random() < 0.7 else range(256)
            p = [pick(rng, alpha) for _ in range(rng.randint(1, 24))]
        elif cls == 'cut_msg':
            enc = list(mido.Message(**model.gen_msg(rng, model.NON_RT_TYPES)).bytes())
            while len(enc) < 2:
                enc = list(mido.Message(**model.gen_msg(rng, model.NON_RT_TYPES)).bytes())
            p = enc[:rng.randint(1, len(enc) - 1)]
        elif cls == 'midstream':
            enc = list(mido.Message(**model.gen_msg(rng, model.NON_RT_TYPES)).bytes())
            while len(enc) < 2:
                enc = list(mido.Message(**model.gen_msg(rng, model.NON_RT_TYPES)).bytes())
            p = enc[rng.randint(1, len(enc) - 1):]
        elif cls == 'stray_status':
            p = [rng.randint(0x80, 0xFF) for _ in range(rng.randint(1, 4))]
        elif cls == 'open_sysex':
            p = [0xF0] + [rng.randint(0, 127) for _ in range(rng.randint(0, 8))]
        else:
            p, _, _ = gen_world(rng, max_len=24, force_faults=True)
        return cls, list(p)[:24]

    def _gen_c06(self, rng, idx=0):
        if idx % 200000 == 13:
            return {'prop': 'C06', 'prefix_class': 'empty', 'prefix': [], 'msgs': [
                {'type': 'note_on', 'channel': 1, 'note': 2, 'velocity': 3},
                {'type': 'sysex', 'data': [i & 0x7F for i in range((1 << 20) + rng.randint(1, 50))]},
                {'type': 'note_off', 'channel': 1, 'note': 2, 'velocity': 3}], 'rt': [[1, 500000, 0xF8]],
                'chunks_p': [], 'chunks_full': [] if rng.random() < 0.5 else [65536] * 20,
                'how': pick(rng, ('list', 'bytes')), 'mutate': False, 'bg': [], 'giant': True}
        if idx % 10000 == 13:
            # a very long concatenation of encoded messages still parses back to the same list
            if rng.random() < 0.5:
                m, rep = {'type': pick(rng, ('clock', 'tune_request', 'start'))}, rng.randint(65600, 70000)
            else:
                m, rep = {'type': 'sysex', 'data': [i % 128 for i in range(rng.randint(900, 1100))]}, rng.randint(70, 90)
            return {'prop': 'C06', 'prefix_class': 'empty', 'prefix': [], 'msgs': [m], 'rt': [], 'chunks_p': [],
                    'chunks_full': [] if rng.random() < 0.5 else [997] * 200,
                    'how': pick(rng, ('list', 'bytes', 'parse_all')), 'mutate': False, 'bg': [], 'repeat': rep}
        cls, prefix = self._gen_prefix(rng)
        r = rng.random()
        if r < 0.35:
            types = model.ALL_TYPES
        elif r < 0.7:
            types = ('sysex',)
        else:
            types = pick(rng, TYPE_MIXES)[1]
        msgs = [model.gen_msg(rng, types, sysex_max=pick(rng, (4, 12, 40)) if rng.random() < 0.98 else 300)
                for _ in range(rng.randint(1, 6))]
        rts = []
        if rng.random() < 0.7:
            for i, d in enumerate(msgs):
                if d['type'] == 'sysex' and rng.random() < 0.8:
                    n = len(d['data'])
                    for _ in range(rng.randint(1, 6) if rng.random() < 0.5 else 1):
                        pos = pick(rng, (1, n + 1, rng.randint(1, n + 1)))
                        rts.append([i, pos, pick(rng, model.RT_DEFINED)])
        total = len(prefix) + sum(len(model.ref_bytes(d)) for d in msgs) + len(rts)
        return {'prop': 'C06', 'prefix_class': cls, 'prefix': prefix, 'msgs': msgs, 'rt': rts,
                'chunks_p': gen_chunks(rng, len(prefix)) if prefix else [],
                'chunks_full': gen_chunks(rng, total),
                'how': pick(rng, HOWS + ('parse_all',)),
                'mutate': rng.random() < 0.3,
                'bg': [pick(rng, BG_KINDS) for _ in range(rng.randint(1, 4))] if rng.random() < 0.3 else [],
                'delays': [pick(rng, (0.0, 0.001, 0.4, 2.5, 3600.0)) for _ in range(3)] if rng.random() < 0.3 else [],
                'take': pick(rng, ('list', 'list', 'get', 'first')),
                # zero-length deliveries before some of the chunks of the full stream: [chunk index, container]
                'empty_at': [[rng.randrange(8), pick(rng, ('bytes', 'list', 'bytearray', 'tuple', 'gen'))]
                             for _ in range(rng.randint(1, 3))] if rng.random() < 0.25 else []}

    # ---------------- execution
    def run(self, prop, plan, keep_log=False):
        if plan.get('mode') in ('pq_threads', 'twin_threads'):
            from .ports_conc import ENGINE as PC
            out = PC.run(prop, plan, keep_log=keep_log)
            for k, v in plan.get('faults_fired', {}).items():
                out['stats']['fault:' + k] += v
            out['stats']['mode_B_runs'] += 1
            return out
        log = Log(keep_log)
        stats = collections.Counter()
        cov = set()
        viol = None
        self._vclock = simtime.VClock(plan.get('t0', 1000.0))
        simtime.activate(self._vclock.read, self._vclock.sleep)
        try:
            if prop == 'C06':
                self._run_c06(plan, log, stats, cov)
            else:
                self._run_stream(prop, plan, log, stats, cov)
        except Violation as v:
            viol = {'sig': v.sig, 'msg': v.msg}
            log.ev('VIOLATION', v.sig)
        finally:
            if simtime.reads():
                stats['clock_reads_by_code_under_test'] += simtime.reads()
            simtime.deactivate()
        for k, v in plan.get('faults_fired', {}).items():
            stats['fault:' + k] += v
        nontrivial = stats.pop('_nontrivial', 0) > 0
        return {'viol': viol, 'digest': log.digest(), 'nontrivial': nontrivial, 'stats': stats,
                'cov': cov, 'events': log.events, 'sim_s': 0.0}

    def _call(self, where, fn, *a):
        try:
            return fn(*a)
        except Violation:
            raise
        except Exception as e:
            raise Violation(f'raised:{type(e).__name__}@{where}',
                            f'{where} raised {type(e).__name__}: {e}')

    def _run_stream(self, prop, plan, log, stats, cov):
        wire = plan['wire']
        mode = plan['mode']
        n = len(wire)
        # ---- reference for C05: one fresh parser fed everything at once; prefix counts from a
        # second fresh parser fed byte by byte (the property says these must all agree).
        ref_all = ref_cnt = None
        if prop == 'C05':
            try:
                ref_all = [snap(m) for m in Parser(list(wire))] if wire else []
                p2 = Parser()
                ref_cnt = [0]
                acc = 0
                bytewise = []
                for b in wire:
                    p2.feed_byte(b)
                    got = [snap(m) for m in p2]
                    acc += len(got)
                    bytewise.extend(got)
                    ref_cnt.append(acc)
            except Exception as e:   # totality is C04's concern, not C05's
                stats['ref_raised'] += 1
                log.ev('ref-raised', type(e).__name__)
                return
            if bytewise != ref_all:
                raise Violation('whole-vs-bytewise', f'feeding all at once gave {ref_all!r}, '
                                                     f'feeding byte by byte gave {bytewise!r}')
        if mode == 'parse_all':
            got = self._call('parse_all', mido.parse_all, list(wire))
            self._c04_check(wire, n, got, [0], stats, final=True)
            stats['steps'] += 1
            if n:
                stats['_nontrivial'] += 1
            log.ev('parse_all', n, len(got))
            self._coverage(wire, [n], cov, stats)
            return
        rx = Receiver(mode)
        fed = 0
        retrieved = []          # everything handed out, in retrieval order
        c04_state = [0]         # greedy subsequence pointer into the non-RT input bytes
        cuts = []
        iter_live_during_feed = set()
        try:
            def avail():
                return ref_cnt[fed] - len(retrieved)

            def took(where, m):
                """m was handed out by the receiver."""
                if prop == 'C05':
                    if avail() <= 0:
                        raise Violation(f'fifo-extra@{where}', f'{where} returned {m!r} but the model queue is '
                                                              f'empty (fed {fed} bytes, retrieved {len(retrieved)})')
                    exp = ref_all[len(retrieved)]
                    if snap(m) != exp:
                        raise Violation(f'fifo-mismatch@{where}', f'{where} returned {m!r}, model head is {exp!r} '
                                                                 f'(fed {fed}, retrieved {len(retrieved)})')
                retrieved.append(m)
                if prop == 'C04':
                    self._c04_check(wire, fed, [m], c04_state, stats)
                if plan.get('mutate'):
                    mutate_received(m)      # the consumer edits what it got; later messages must not care
                    stats['fault:consumer_mutates_message'] += 1

            deferred = [False]      # a delivery failed part-way: what it tokenised may surface only with the next one
            last_pending = [None]   # what pending() said since the last delivery (None: not asked)
            twin = None
            twin_fed = 0
            twin_got = []
            twin_wire = plan.get('twin_wire') or []
            if twin_wire:
                try:
                    twin_ref = [snap(m) for m in Parser(list(twin_wire))]
                except Exception:
                    twin_ref = None
                twin = Parser()
            for op in plan['ops'] + [['feed', 'list', n], ['drain']]:
                kind = op[0]
                stats['steps'] += 1
                if kind not in ('pending', 'len', 'get'):
                    last_pending[0] = None       # only a get_message() directly after a pending() is compared with it
                if kind == 'delay':
                    self._vclock.now += op[1]        # the transport is slow: virtual time passes between deliveries
                    stats['fault:delivery_delay'] += 1
                    log.ev('delay', op[1])
                elif kind == 'bg':
                    background(op[1], wire, stats)
                    log.ev('bg', op[1])
                elif kind == 'twin_feed':
                    if twin is not None and twin_fed < len(twin_wire):
                        part = twin_wire[twin_fed:twin_fed + op[1]]
                        twin_fed += len(part)
                        self._call('twin.feed', twin.feed, part)
                        stats['fault:second_parser_fed_in_between'] += 1
                        log.ev('twin_feed', len(part))
                elif kind == 'twin_get':
                    if twin is not None:
                        m = self._call('twin.get', twin.get_message)
                        if m is not None:
                            twin_got.append(snap(m))
                elif kind == 'feed_empty':
                    if mode in ('parser', 'pq'):
                        self._call(f'feed[{op[1]}:empty]' if mode == 'parser' else f'feed@{mode}', rx.feed, op[1], [])
                        stats['fault:empty_delivery'] += 1
                        log.ev('feed_empty', op[1])
                elif kind == 'feed':
                    size = min(op[2], n - fed)
                    if size <= 0:
                        continue
                    data = wire[fed:fed + size]
                    how = op[1]
                    consumed = self._call(f'feed[{how}]' if mode == 'parser' else f'feed@{mode}', rx.feed, how, data)
                    if isinstance(consumed, int) and 0 <= consumed < size:
                        size = consumed
                        stats['fault:source_failed_mid_chunk'] += 1
                        deferred[0] = True
                    else:
                        deferred[0] = False
                    last_pending[0] = None
                    fed += size
                    cuts.append(fed)
                    iter_live_during_feed.update(rx.iters)
                    log.ev('feed', how, size)
                elif kind == 'get':
                    m = self._call('get', rx.get)
                    log.ev('get', repr(m))
                    if prop == 'C05' and last_pending[0] is not None:
                        # pending() and get_message() must agree with each other at all times
                        if (m is None) != (last_pending[0] == 0):
                            raise Violation('pending-vs-get', f'pending() said {last_pending[0]} and the next get_message() '
                                                              f'returned {m!r}')
                        last_pending[0] = None
                    if m is None:
                        stats['probe:get_on_empty'] += 1
                        if prop == 'C05' and avail() > 0 and not deferred[0]:
                            raise Violation('get-none-but-pending', f'get returned None with {avail()} message(s) '
                                                                    f'pending in the model (fed {fed})')
                    else:
                        took('get', m)
                elif kind in ('pending', 'len'):
                    v = self._call(kind, rx.pending, kind == 'len')
                    log.ev(kind, v)
                    if v is not None:
                        last_pending[0] = v
                    if v is not None and prop == 'C05' and deferred[0] and v > avail():
                        raise Violation(f'pending-mismatch@{kind}', f'{kind} gave {v}, more than the {avail()} messages the '
                                                                   f'bytes consumed so far contain')
                    if v is not None and prop == 'C05' and not deferred[0] and v != avail():
                        raise Violation(f'pending-mismatch@{kind}', f'{kind} gave {v}, model has {avail()} '
                                                                   f'(fed {fed}, retrieved {len(retrieved)})')
                elif kind == 'iter_open':
                    rx.iters[op[1]] = self._call('iter_open', rx.new_iter)
                    log.ev('iter_open', op[1])
                elif kind == 'iter_next':
                    it = rx.iters.get(op[1])
                    if it is None:
                        continue
                    for _ in range(op[2]):
                        try:
                            m = self._call('iter_next', next, it)
                        except Violation as v:
                            if v.sig.startswith('raised:StopIteration'):
                                m = StopIteration
                            else:
                                raise
                        if m is StopIteration:
                            log.ev('iter_stop', op[1])
                            del rx.iters[op[1]]
                            iter_live_during_feed.discard(op[1])
                            if prop == 'C05' and avail() > 0 and not deferred[0]:
                                raise Violation('iter-stopped-but-pending', f'open iterator stopped with {avail()} '
                                                                            f'pending in the model')
                            break
                        log.ev('iter_next', op[1], repr(m))
                        if op[1] in iter_live_during_feed:
                            stats['probe:open_iterator_survives_feed'] += 1
                        took('iter_next', m)
                elif kind == 'drain':
                    it = self._call('drain', rx.new_iter)
                    exp_n = avail() if prop == 'C05' else None
                    k = 0
                    while True:
                        try:
                            m = self._call('drain', next, it)
                        except Violation as v:
                            if v.sig.startswith('raised:StopIteration'):
                                break
                            raise
                        k += 1
                        took('drain', m)
                        if k > n + 5:
                            raise Violation('drain-unbounded', 'draining yields more messages than input bytes')
                    log.ev('drain', k)
                    last_pending[0] = None
                    if exp_n is not None and k != exp_n and not (deferred[0] and k < exp_n):
                        raise Violation('drain-count-mismatch', f'drain yielded {k}, model had {exp_n} pending')
            if twin is not None and twin_ref is not None:
                self._call('twin.feed', twin.feed, twin_wire[twin_fed:])
                twin_got.extend(snap(m) for m in self._call('twin.drain', list, twin))
                if twin_got != twin_ref:
                    raise Violation('second-parser-disturbed', f'a second, independent parser fed {bytes(twin_wire).hex(" ")} '
                                                               f'in pieces between the feeds of the first one yielded '
                                                               f'{twin_got!r}; alone it yields {twin_ref!r}')
            # end of stream: everything was fed and drained
            if prop == 'C05':
                if len(retrieved) != len(ref_all):
                    raise Violation('final-mismatch', f'{len(retrieved)} messages retrieved in total, one-shot '
                                                      f'reference has {len(ref_all)}')
            else:
                self._c04_check(wire, n, [], c04_state, stats, final=True)
        finally:
            try:
                rx.close()
            except Exception:
                pass
        if n and (len(cuts) > 1 or plan['ops']):
            stats['_nontrivial'] += 1
        self._coverage(wire, cuts, cov, stats)

    def _c04_check(self, wire, fed, new_msgs, state, stats, final=False):
        """Oracles (2)-(4) of C04, incrementally.

        state = [p, r, rt_positions]: p = greedy pointer into the wire for the non-real-time
        subsequence match (greedy earliest match is exact for subsequence), r = number of
        real-time messages handed out so far, rt_positions = offsets of defined RT bytes."""
        if len(state) < 3:
            state.append(0)
            state.append([i for i, b in enumerate(wire) if b in model.RT_BY_STATUS])
        rtpos = state[2]
        for m in new_msgs:
            why = model.invalid_reason(m)
            if why:
                raise Violation('invalid-message', f'yielded {m!r}: {why}')
            d = model.msg_to_dict(m)
            try:
                back = mido.Message.from_bytes(m.bytes())
            except Exception as e:
                raise Violation('invalid-message', f'yielded {m!r} whose bytes() do not decode: {e}')
            if not _eq(back, m):
                raise Violation('invalid-message', f'yielded {m!r} != from_bytes(bytes()) {back!r}')
            if m.type == 'sysex':
                # a valid sysex message can be extended the documented way (msg.data += [...])
                try:
                    ext = m.copy()
                    ext.data += [1]
                    ok = tuple(ext.data) == tuple(m.data) + (1,)
                except Exception as e:
                    raise Violation('invalid-message', f'yielded {m!r} whose data cannot be extended with += : {e!r}')
                if not ok:
                    raise Violation('invalid-message', f'yielded {m!r}: data += [1] gave {ext.data!r}')
            if m.type in model.RT_TYPES:
                r = state[1]
                if r >= len(rtpos) or rtpos[r] >= fed or model.RT_BY_STATUS[wire[rtpos[r]]] != m.type:
                    rt_in = [model.RT_BY_STATUS[wire[i]] for i in rtpos if i < fed]
                    raise Violation('rt-mismatch', f'real-time message #{r + 1} yielded is {m.type}, but the defined '
                                                   f'real-time bytes fed so far are {rt_in}')
                state[1] = r + 1
                continue
            p = state[0]
            for b in model.ref_bytes(d):
                while p < fed and wire[p] != b:
                    p += 1
                if p >= fed:
                    raise Violation('not-subsequence', f'yielded {m!r} whose bytes are not a subsequence of the '
                                                       f'input consumed so far ({fed} bytes, after earlier matches)')
                p += 1
            state[0] = p
        if final and state[1] != len(rtpos):
            raise Violation('rt-mismatch', f'{len(rtpos)} defined real-time bytes in the input, '
                                           f'{state[1]} real-time messages yielded')

    def _coverage(self, wire, cuts, cov, stats):
        tok = model.AbstractTok()
        cutset = set(cuts)
        prev = None
        for i, b in enumerate(wire):
            first = (i == 0) or (i in cutset)
            s, c = tok.step(b)
            cov.add(f'{s}|{c}|{int(first)}')
            if first and i:
                if s in ('ch3a2', 'ch3a1', 'ch2a1'):
                    stats['probe:cut_inside_channel_msg'] += 1
                if s == 'sysex':
                    stats['probe:cut_inside_sysex'] += 1
                if prev is not None and prev >= 0x80 and s not in ('idle',):
                    stats['probe:cut_between_status_and_data'] += 1
            if c in ('rt', 'rtundef') and s in ('ch3a2', 'ch3a1', 'ch2a1', 'f13a1', 'f2a2', 'f2a1'):
                stats['probe:rt_inside_channel_msg'] += 1
            if c not in ('data', 'rt', 'rtundef', 'F7') and s == 'sysex':
                stats['probe:status_inside_sysex'] += 1
            if c == 'F7' and s != 'sysex':
                stats['probe:f7_without_sysex'] += 1
            if c in ('F4F5', 'rtundef') and s != 'idle':
                stats['probe:undefined_status_mid_message'] += 1
            prev = b

    def _take(self, where, p, take):
        """Collect what the parser has ready, the way the plan's consumer does it."""
        if take == 'get':
            out = []
            while True:
                m = self._call(f'{where}:get_message', p.get_message)
                if m is None:
                    return out
                out.append(m)
        if take == 'first':
            out = []
            while self._call(f'{where}:pending', p.pending):
                n0 = len(out)
                for m in p:          # a consumer that takes one message and leaves the loop
                    out.append(m)
                    break
                if len(out) == n0:
                    break
            return out
        return self._call(f'{where}:iter', list, p)

    def _parse_chunked(self, where, data, chunks, how, delays=(), take='list', empty_at=()):
        """Parse `data` with a fresh real parser, cut as `chunks` says (virtual time may pass between cuts)."""
        if how == 'parse_all':
            return self._call(f'{where}:parse_all', mido.parse_all, list(data))
        p = Parser()
        pos = 0
        out = []
        for ci, s in enumerate(list(chunks) + [len(data)]):
            part = data[pos:pos + s]
            if not part:
                continue
            if delays and pos:
                self._vclock.now += delays[ci % len(delays)]
            for eci, ehow in empty_at:
                if eci == ci:
                    self._call(f'{where}:feed-empty', p.feed, _as(ehow, []))    # a read that returned nothing
            pos += len(part)
            if how == 'byte':
                for b in part:
                    self._call(f'{where}:feed_byte', p.feed_byte, b)
            elif how == 'gen_fail' and len(part) > 1:
                st = {'fail_at': len(part) // 2, 'consumed': 0}
                try:
                    p.feed(_failing_source(part, st))
                except SourceFailed:
                    pass
                except Exception as e:
                    raise Violation(f'raised:{type(e).__name__}@{where}:feed', f'{where}: feed raised {e!r}')
                rest = part[st['consumed']:]
                if rest:
                    self._call(f'{where}:feed', p.feed, list(rest))
            else:
                self._call(f'{where}:feed', p.feed, _as(how, part))
            if len(out) % 2:
                out.extend(self._take(where, p, take))
        out.extend(self._take(where, p, take))
        return out

    def _run_c06(self, plan, log, stats, cov):
        prefix = plan['prefix']
        how = plan['how']
        msgs = [mido.Message(**d) for d in plan['msgs']]
        if plan.get('repeat'):
            msgs = msgs * plan['repeat']
            stats['fault:bulk_stream'] += 1
        by_msg = collections.defaultdict(list)
        for i, pos, b in plan['rt']:
            if i < len(msgs) and msgs[i].type == 'sysex' and b in model.RT_DEFINED:
                by_msg[i].append((pos, b))
        stream = list(prefix)
        expected_tail = []
        for i, m in enumerate(msgs):
            enc = list(m.bytes())
            ins = by_msg.get(i, [])
            if ins:
                n = len(enc) - 2
                order = sorted(range(len(ins)), key=lambda k: (min(max(ins[k][0], 1), n + 1), k))
                pieces = collections.defaultdict(list)
                for k in order:
                    pos = min(max(ins[k][0], 1), n + 1)
                    pieces[pos].append(ins[k][1])
                    expected_tail.append(mido.Message(model.RT_BY_STATUS[ins[k][1]]))
                    stats['fault:rt_inside_sysex'] += 1
                    if pos == 1:
                        stats['probe:rt_at_first_payload_position'] += 1
                    if pos == n + 1:
                        stats['probe:rt_just_before_f7'] += 1
                enc2 = []
                for j, b in enumerate(enc):
                    enc2.extend(pieces.get(j, []))
                    enc2.append(b)
                enc = enc2
            expected_tail.append(m)
            stream.extend(enc)
        expected_tail = [snap(m) for m in expected_tail]
        for k in plan.get('bg', [])[:2]:
            background(k, stream, stats)
        a_objs = self._parse_chunked('prefix', prefix, plan['chunks_p'], how if how != 'parse_all' else 'list')
        a = [snap(m) for m in a_objs]
        log.ev('prefix', plan['prefix_class'], len(prefix), [repr(x) for x in a[:50]])
        if plan.get('mutate'):
            for m in a_objs:
                mutate_received(m)
            stats['fault:consumer_mutates_message'] += 1
        for k in plan.get('bg', [])[2:]:
            background(k, stream, stats)
        b = [snap(m) for m in self._parse_chunked('full', stream, plan['chunks_full'], how, plan.get('delays', ()),
                                                  plan.get('take', 'list'), plan.get('empty_at', ()))]
        if plan.get('empty_at') and how != 'parse_all':
            stats['fault:empty_delivery'] += 1
        if plan.get('take', 'list') != 'list':
            stats['fault:consumer_takes_one_at_a_time'] += 1
        log.ev('full', len(stream), len(b), [repr(x) for x in b[:50]])
        stats['steps'] += 2
        expected = a + expected_tail
        if b != expected and plan.get('repeat'):
            raise Violation('resync:long-concat', f'{plan["repeat"]} encoded {plan["msgs"][0]["type"]} messages in one '
                                                  f'stream parsed back to {len(b)} messages')
        if b != expected:
            kinds = 'rt-in-sysex' if by_msg else ('clean-concat' if not prefix else 'prefix')
            raise Violation(f'resync:{kinds}',
                            f'parse(P)={a!r}; parse(P+enc(M..)) gave {b!r}, expected {expected!r} '
                            f'(P={bytes(prefix[:200]).hex(" ")}, stream={bytes(stream[:400]).hex(" ")}'
                            f'{"..." if len(stream) > 400 else ""})'[:6000])
        # probes (reach), measured on the abstract state at the end of the prefix
        tok = model.AbstractTok()
        for x in prefix:
            tok.step(x)
        if tok.s == 'sysex':
            stats['probe:prefix_ends_in_open_sysex'] += 1
            if msgs[0].type in model.RT_TYPES:
                stats['probe:M_is_realtime_after_open_sysex'] += 1
        if tok.s in ('ch3a1', 'ch2a1', 'f13a1', 'f2a1'):
            stats['probe:prefix_ends_one_byte_short'] += 1
        cov.add(f'{plan["prefix_class"]}|{msgs[0].type}')
        cov.add(f'endstate:{tok.s}|{msgs[0].type}')
        if prefix or by_msg or len(msgs) > 1:
            stats['_nontrivial'] += 1
        if not prefix and not by_msg:
            stats['clean_concat_runs'] += 1

    def abort_cleanup(self):
        from .ports_conc import ENGINE as PC
        PC.abort_cleanup()

    def wants_isolation(self, plan):
        return plan.get('mode') == 'twin_threads'

    # ---------------- shrinking
    def shrink(self, prop, plan):
        if plan.get('mode') in ('pq_threads', 'twin_threads'):
            from .ports_conc import ENGINE as PC
            yield from PC.shrink(prop, plan)
            if 'wire' in plan:
                yield from shrink_list_at(plan, ('wire',))
            return
        if prop == 'C06':
            if plan.get('repeat'):
                if plan['repeat'] > 2:
                    yield replace_at(plan, ('repeat',), plan['repeat'] - 1000 if plan['repeat'] > 3000 else plan['repeat'] // 2)
                return
            yield from shrink_list_at(plan, ('msgs',), min_len=1)   # rt indices are re-validated at run time
            yield from shrink_list_at(plan, ('rt',))
            yield from shrink_list_at(plan, ('prefix',))
            if plan.get('bg'):
                yield from shrink_list_at(plan, ('bg',))
            if plan.get('delays'):
                yield replace_at(plan, ('delays',), [])
            if plan.get('mutate'):
                yield replace_at(plan, ('mutate',), False)
            if plan['chunks_full']:
                yield replace_at(plan, ('chunks_full',), [])
            if plan['chunks_p']:
                yield replace_at(plan, ('chunks_p',), [])
            if plan['how'] != 'list':
                yield replace_at(plan, ('how',), 'list')
            for i, d in enumerate(plan['msgs']):
                if d['type'] == 'sysex' and d['data']:
                    yield from shrink_list_at(plan, ('msgs', i, 'data'))
            for i, r in enumerate(plan['rt']):
                if r[1] > 1:
                    yield replace_at(plan, ('rt', i, 1), 1)
            return
        yield from shrink_list_at(plan, ('ops',))
        yield from shrink_list_at(plan, ('wire',))
        if plan.get('twin_wire'):
            yield from shrink_list_at(plan, ('twin_wire',))
        if plan.get('mutate'):
            yield replace_at(plan, ('mutate',), False)
        for i, op in enumerate(plan['ops']):
            if op[0] == 'feed' and op[1] != 'list':
                yield replace_at(plan, ('ops', i, 1), 'list')
            if op[0] == 'feed' and op[2] > 1:
                yield replace_at(plan, ('ops', i, 2), op[2] // 2)
        if plan['mode'] not in ('parser',):
            yield replace_at(plan, ('mode',), 'parser')
        for i, b in enumerate(plan['wire']):
            if 0 < b < 0x80:
                yield replace_at(plan, ('wire', i), 0)

    def sample_view(self, plan):
        v = dict(plan)
        if 'wire' in v:
            v['wire'] = bytes(v['wire']).hex(' ')
        if 'prefix' in v:
            v['prefix'] = bytes(v['prefix']).hex(' ')
        return v

    # ---------------- reporting
    def rule(self, prop):
        if prop == 'C06':
            return ('Each run: a damaged prefix P (7 classes incl. a faulted world wire), then 1-6 healthy messages of '
                    'all 18 types, defined real-time bytes inserted strictly inside sysex encodings, P and P+enc(M..) '
                    'each parsed by a fresh real Parser under independent random chunking. Non-trivial = non-empty '
                    'prefix, or real-time inserted into a sysex, or more than one message.')
        return ('Each run: a wire image produced by simulated sources + merger + fault process (or pure noise), '
                'delivered to the real parser (or parse_all / device-port double / ParserQueue) by a scripted '
                'transport (chunk sizes, feed call kinds) interleaved with consumer operations. Non-trivial = '
                'non-empty wire that was cut into more than one delivery or had consumer operations interleaved.')

    def coverage_report(self, prop, cov):
        if prop == 'C06':
            cells = sorted(c for c in cov if not c.startswith('endstate:'))
            return {'prefix_class_x_first_message_type_cells_hit': len(cells),
                    'of': len(PREFIX_CLASSES) * len(model.ALL_TYPES),
                    'prefix_endstate_x_type_cells_hit': len([c for c in cov if c.startswith('endstate:')]),
                    'endstate_of': len(ABS_STATES) * len(model.ALL_TYPES)}
        cov = {c for c in cov if c.count('|') == 2 and not c.startswith('pq_raw')}
        return {'abstract_state_x_input_class_x_chunk_start_cells_hit': len(cov),
                'of': len(ABS_STATES) * len(BYTE_CLASSES) * 2,
                'missing': sorted(f'{s}|{c}|{f}' for s in ABS_STATES for c in BYTE_CLASSES for f in (0, 1)
                                  if f'{s}|{c}|{f}' not in cov)[:40]}

    def components(self, prop):
        return {'real': ['mido.tokenizer.Tokenizer', 'mido.parser.Parser', 'mido.parser.parse_all',
                         'mido.messages (Message.bytes as transmitter, Message.from_bytes in the parser)',
                         'mido.ports.BaseInput (poll/iter_pending over a device double)',
                         'mido.backends._parser_queue.ParserQueue (real queue.Queue/RLock, single-threaded here)'],
                'stub': ['MIDI sources, merger, fault process and transport (the simulated wire)',
                         'device double below BaseInput._receive'],
                'not_run': ['C-library backends (rtmidi, portmidi, pygame, amidi)']}

    def assumptions(self, prop):
        return ['Input bytes are integers 0..255 (the statement quantifies over those).',
                'The reference for C05 is the real parser fed the whole stream at once (metamorphic: this is the '
                'property); C04 validity uses an independent table of MIDI 1.0 types/ranges/encodings.',
                'Seeded sampling: a clean batch is evidence, not proof.']

    def probe_names(self, prop):
        if prop == 'C06':
            return ['prefix_ends_in_open_sysex', 'prefix_ends_one_byte_short', 'rt_at_first_payload_position',
                    'rt_just_before_f7', 'M_is_realtime_after_open_sysex']
        base = ['rt_inside_channel_msg', 'status_inside_sysex', 'f7_without_sysex', 'undefined_status_mid_message']
        if prop == 'C05':
            base += ['cut_inside_channel_msg', 'cut_inside_sysex', 'cut_between_status_and_data',
                     'open_iterator_survives_feed', 'get_on_empty']
        return base


ENGINE = WireEngine()
